// fakezm stands in for the lrzsz helpers (rz / sz) in the C19 check. Behaviour comes from the environment:
//   FAKEZM_MODE = exit_now | silent | talk | late:<ms> | linger | mute_linger      FAKEZM_EXIT = exit status      FAKEZM_LOG = log file
package main

import (
	"bytes"
	"fmt"
	"os"
	"strconv"
	"strings"
	"time"
)

func logf(format string, a ...any) {
	if p := os.Getenv("FAKEZM_LOG"); p != "" {
		f, err := os.OpenFile(p, os.O_APPEND|os.O_CREATE|os.O_WRONLY, 0644)
		if err == nil {
			fmt.Fprintf(f, format, a...)
			f.Close()
		}
	}
}

func main() {
	mode := os.Getenv("FAKEZM_MODE")
	code, _ := strconv.Atoi(os.Getenv("FAKEZM_EXIT"))
	logf("started %s\n", strings.Join(os.Args, " "))
	if mode == "exit_now" {
		os.Exit(code)
	}
	if strings.HasPrefix(mode, "late:") {
		ms, _ := strconv.Atoi(mode[5:])
		time.Sleep(time.Duration(ms) * time.Millisecond)
		mode = "talk"
	}
	linger := false
	if mode == "linger" { // talks and finishes like a real helper, but does not leave by itself afterwards
		linger = true
		mode = "talk"
	}
	if mode == "mute_linger" { // never says a word and does not leave by itself, whatever the other side says (short of a cancel)
		linger = true
	}
	if mode == "talk" {
		os.Stdout.Write([]byte("HELLO-FROM-HELPER\r\n"))
	}
	buf := make([]byte, 4096)
	var all []byte
	for {
		n, err := os.Stdin.Read(buf)
		if n > 0 {
			all = append(all, buf[:n]...)
			logf("stdin %q\n", buf[:n])
			if bytes.Contains(all, []byte("\x18\x18\x18\x18\x18")) {
				logf("cancelled\n")
				os.Exit(code)
			}
			if mode == "talk" && bytes.Contains(all, []byte("**\x18B08")) {
				os.Stdout.Write([]byte("**\x18B0800000000022d\r\x8a"))
				all = nil
				if strings.HasSuffix(os.Args[0], "sz") && !linger {
					// a sending helper says "over and out" itself and leaves
					time.Sleep(20 * time.Millisecond)
					logf("over and out (sender)\n")
					os.Exit(code)
				}
			}
			if bytes.Contains(all, []byte("OO")) && !linger {
				logf("over and out\n")
				os.Exit(code)
			}
			if bytes.Contains(all, []byte("HELPER-EXIT")) {
				os.Exit(code)
			}
		}
		if err != nil {
			logf("stdin closed\n")
			os.Exit(code)
		}
	}
}
