module fakezm

go 1.20
