module yieldify

go 1.20
