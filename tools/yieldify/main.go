// yieldify inserts `vfYield("<file>:<line>"); ` in front of every statement of every block, case clause and select
// clause body of the given Go source files. The insertion is textual at the statement's byte offset, so line numbers,
// comments and formatting are untouched. Usage: yieldify file.go...
package main

import (
	"fmt"
	"go/ast"
	"go/parser"
	"go/token"
	"os"
	"path/filepath"
	"sort"
)

func main() {
	total := 0
	for _, path := range os.Args[1:] {
		src, err := os.ReadFile(path)
		if err != nil {
			fmt.Fprintln(os.Stderr, err)
			os.Exit(1)
		}
		fset := token.NewFileSet()
		f, err := parser.ParseFile(fset, path, src, parser.ParseComments)
		if err != nil {
			fmt.Fprintln(os.Stderr, err)
			os.Exit(1)
		}
		type ins struct {
			off  int
			text string
		}
		var list []ins
		add := func(stmts []ast.Stmt) {
			for _, s := range stmts {
				switch s.(type) {
				case *ast.EmptyStmt, *ast.CaseClause, *ast.CommClause:
					continue // the clause headers of a switch / select body are not statements one can precede
				}
				pos := fset.Position(s.Pos())
				list = append(list, ins{pos.Offset, fmt.Sprintf("vfYield(\"%s:%d\"); ", filepath.Base(path), pos.Line)})
			}
		}
		ast.Inspect(f, func(n ast.Node) bool {
			switch b := n.(type) {
			case *ast.BlockStmt:
				add(b.List)
			case *ast.CaseClause:
				add(b.Body)
			case *ast.CommClause:
				add(b.Body)
			}
			return true
		})
		sort.Slice(list, func(i, j int) bool { return list[i].off > list[j].off })
		out := src
		seen := map[int]bool{}
		for _, in := range list {
			if seen[in.off] {
				continue
			}
			seen[in.off] = true
			out = append(out[:in.off], append([]byte(in.text), out[in.off:]...)...)
			total++
		}
		if err := os.WriteFile(path, out, 0644); err != nil {
			fmt.Fprintln(os.Stderr, err)
			os.Exit(1)
		}
	}
	fmt.Printf("%d sites\n", total)
}
