# Per-property run configuration for /verif/bin/check.
# tests[*]: name = Go test (or fuzz) function in the injected harness; quick/thorough = dict(checks=total rapid
# cases over all shards, shards=processes, timeout=per-shard seconds, env=..., fuzz="60s" for native fuzz targets).

PROPS = {}

PROPS["C03"] = dict(
    level="exploration",
    rule="rapid draws (byte stream, segmentation into non-empty reads, sequence of strict-line / junk-tolerant-line / "
         "binary(n) reads); reference = single-cursor parser written from the statement; plus no-over-pull check "
         "(chunks pulled == index of the chunk holding the last needed byte). Non-trivial = >=2 chunks and >=1 "
         "operation whose result spans a chunk boundary; distinct by SHA-1 of the case JSON. The exhaustive "
         "sub-space (thorough) is counted by enumeration.",
    exhaustive_scope="all streams of length<=VERIF_C03_MAXLEN over {a,LF,CR,#,:,Ctrl-C} x all 2^(n-1) segmentations x 8 operation schedules",
    tests=[
        dict(name="TestVF_C03",
             quick=dict(checks=160000, shards=8, timeout=300),
             thorough=dict(checks=4000000, shards=16, timeout=3000)),
        dict(name="TestVF_C03Exhaustive", rapid=False,
             quick=dict(shards=4, timeout=300, env=dict(VERIF_C03_MAXLEN=4)),
             thorough=dict(shards=16, timeout=3000, env=dict(VERIF_C03_MAXLEN=6))),
    ],
)
