# Per-property run configuration for /verif/bin/check.
# tests[*]: name = Go test (or fuzz) function in the injected harness; quick/thorough = dict(checks=total rapid
# cases over all shards, shards=processes, timeout=per-shard seconds, env=..., fuzz="60s" for native fuzz targets).

PROPS = {}
NOT_APPLICABLE = {}
ENGINES = [
    dict(name="E1 unit", path="/verif/harness/trzsz", serves_properties=["C03", "C04", "C06", "C12", "C15", "C16", "C20"],
         kind_free_text="in-package rapid properties and native fuzz targets against a reference model"),
    dict(name="E2 pair", path="/verif/harness/trzsz", serves_properties=["C01", "C02", "C04", "C07", "C08", "C09"],
         kind_free_text="real sender and receiver transfer objects joined by a harness-owned wire (segmenter, tap, faults)"),
    dict(name="E3 session", path="/verif/harness/trzsz", serves_properties=["C01", "C02", "C05", "C06", "C10", "C11", "C12", "C14", "C17", "C18", "C19"],
         kind_free_text="exported filter in-process against the real trz/tsz binaries as child processes over the harness wire"),
    dict(name="E4 relay-sched", path="/verif/harness/trzsz", serves_properties=["C13"],
         kind_free_text="in-process relay built from yield-instrumented sources with generated arrival pattern and schedule plan"),
]

PROPS["C03"] = dict(
    level="exploration", engine="E1 unit",
    technique="property-based testing (rapid) against a reference stream parser; exhaustive enumeration of short streams x segmentations",
    level_text="Random search over (stream, segmentation, read sequence) compared with an independent single-cursor reference "
               "parser and a deterministic no-over-pull check; the thorough tier enumerates every stream of length <= 6 over the "
               "six-symbol alphabet with every segmentation and 8 read schedules. Exploration is the right level: the property "
               "is a for-all over inputs with a cheap exact oracle.",
    level_note="Trusts the reference parser in the harness (40 lines, written from the statement) and rapid. Reads that "
               "cannot complete are never issued; behaviour after an interrupt is not compared.",
    rule="rapid draws (byte stream, segmentation into non-empty reads, sequence of strict-line / junk-tolerant-line / "
         "binary(n) reads); reference = single-cursor parser written from the statement; plus no-over-pull check "
         "(chunks pulled == index of the chunk holding the last needed byte). Non-trivial = >=2 chunks and >=1 "
         "operation whose result spans a chunk boundary; distinct by SHA-1 of the case JSON. The exhaustive "
         "sub-space (thorough) is counted by enumeration.",
    exhaustive_scope="all streams of length<=VERIF_C03_MAXLEN over {a,LF,CR,#,:,Ctrl-C} x all 2^(n-1) segmentations x 8 operation schedules",
    tests=[
        dict(name="TestVF_C03",
             quick=dict(checks=160000, shards=8, timeout=300),
             thorough=dict(checks=4000000, shards=16, timeout=3000)),
        dict(name="TestVF_C03Exhaustive", rapid=False,
             quick=dict(shards=4, timeout=300, env=dict(VERIF_C03_MAXLEN=4)),
             thorough=dict(shards=16, timeout=3000, env=dict(VERIF_C03_MAXLEN=6))),
    ],
)

PROPS["C04"] = dict(
    level="exploration", engine="E1 unit + E2 pair",
    technique="property-based testing (rapid): round-trip and streaming round-trip oracles over generated escape tables, cuts and buffer sizes; wire-level protected-byte scan on real transfers",
    level_text="Random search over (announced table, payload, producer write sizes, cut points of the escaped stream including inside "
               "a leader/code pair, consumer buffer sizes, zstd in front) with round-trip, no-protected-byte and reject-undefined-pair "
               "oracles; all 1- and 2-byte payloads enumerated for both built-in tables; wire-level scan of everything an uploading "
               "client writes on real pair-engine transfers.",
    level_note="Tables are generated in the form servers announce (leader 0xEE present, distinct sources, distinct codes none of which "
               "is a protected byte). Zero-length reads are out of domain (this code base never issues them).",
    rule="non-trivial = payload contains a protected byte or the leader AND (a cut falls between a leader and its code, or zstd "
         "sits in front of the escaper); distinct by SHA-1 of the case JSON",
    tests=[
        dict(name="TestVF_C04", quick=dict(checks=60000, shards=8, timeout=300), thorough=dict(checks=3000000, shards=16, timeout=3000)),
        dict(name="TestVF_C04AllBytes", rapid=False, quick=dict(shards=1, timeout=300), thorough=dict(shards=1, timeout=600)),
        dict(name="TestVF_C04Wire", env=dict(VERIF_CASE_LIMIT=300),
             quick=dict(checks=480, shards=8, timeout=600), thorough=dict(checks=12000, shards=16, timeout=3000)),
    ],
)

PROPS["C20"] = dict(
    level="exploration", engine="E1 unit",
    technique="property-based testing (rapid): generated event sequences and clock against a width / percentage parser oracle",
    level_text="Random search over (width 1..500, pane mode, tmux control-mode prefix, colour pair, file count, names of every display-width "
               "class, sizes to 2^62 and negative, step sequences with repeats, regressions and values beyond the size, resume pre-size, "
               "a generated clock from 0 elapsed to 400 days, resizes, pause) with an oracle that strips control sequences and measures "
               "display width with go-runewidth, parses the percentage and checks 0..100 and monotonicity within a file.",
    level_note="Display width is defined by mattn/go-runewidth (the measure the renderer itself uses). Width and percentage claims are made "
               "for widths >= 5; monotonicity only while the total size of the current file is constant (cooperative caller sequences).",
    rule="non-trivial = >=2 rendered progress lines checked and >=2 step events; distinct by SHA-1 of the case JSON",
    tests=[dict(name="TestVF_C20", quick=dict(checks=80000, shards=8, timeout=300), thorough=dict(checks=4000000, shards=16, timeout=3000))],
)

PROPS["C16"] = dict(
    level="exploration", engine="E1 unit",
    technique="property-based testing (rapid): grammar-generated noise of the documented kinds inserted into generated protocol lines, arbitrary chunking, exact-recovery oracle",
    level_text="Random search over (1-3 protocol lines over the protocol alphabet, documented tmux / Windows-console noise at generated positions "
               "and multiplicities, optional Ctrl-C, arbitrary chunking) through the real recvLine in tmux-junk and Windows framing; oracle = "
               "the exact payload comes back, or the interrupt error when a Ctrl-C precedes the terminator.",
    level_note="Only the documented noise shapes are generated (DESIGN.md C16): a cursor-position sequence is followed by the re-printed "
               "character only in the wrap form; a bare cursor move is emitted only while no LF was seen since the last kept letter. "
               "The Windows rules are heuristics; outside these shapes nothing is asserted.",
    rule="non-trivial = >=1 noise item placed inside a payload; distinct by SHA-1 of the case JSON",
    tests=[
        dict(name="TestVF_C16", quick=dict(checks=100000, shards=8, timeout=300), thorough=dict(checks=3000000, shards=16, timeout=3000)),
        dict(name="TestVF_C16KnownF12", rapid=False, quick=dict(shards=1, timeout=60), thorough=dict(shards=1, timeout=60)),
    ],
)

PROPS["C15"] = dict(
    level="exploration", engine="E1 unit",
    technique="property-based testing (rapid): generated trees through the real scanner, archive reader and archive writer with independent read and write segmentations; tree-equality, size and descriptor-census oracles; exhaustive cut pairs for small trees",
    level_text="Random search over (tree shape, names, sizes, producer read sizes, independent consumer write segmentation, source files "
               "shrunk or extended between scan and read, trees of 120-400 entries) with oracles: reconstructed tree == source tree, bytes "
               "produced == announced size, /proc/self/fd census stays within baseline+3 on both sides, a shrunken source is an error and "
               "the consumer never creates a path that is not in the source. Every single cut and every pair of cuts is enumerated for four small trees.",
    level_note="Trusts the harness tree walker/SHA-1 comparison. GC is disabled during a case so that a dropped, unclosed *os.File stays visible in the census. "
               "Symlinks and non-UTF-8 names are out of domain.",
    rule="non-trivial = at least one consumer write boundary falls inside an entry header or exactly at an entry boundary; distinct by SHA-1 of the case JSON",
    exhaustive_scope="4 fixed small trees x every single cut and (stream <= VERIF_C15_PAIRLEN bytes) every pair of cuts of the archive stream",
    tests=[
        dict(name="TestVF_C15", quick=dict(checks=2400, shards=8, timeout=300), thorough=dict(checks=100000, shards=16, timeout=3000)),
        dict(name="TestVF_C15Exhaustive", rapid=False, quick=dict(shards=4, timeout=300, env=dict(VERIF_C15_PAIRLEN=0)),
             thorough=dict(shards=16, timeout=3000, env=dict(VERIF_C15_PAIRLEN=400))),
    ],
)

PROPS["C06"] = dict(
    level="exploration", engine="E1 unit + E3 session",
    technique="property-based testing (rapid): grammar-generated triggers, look-alikes, id histories and scroll-back against a hand-written reference scanner and a remembered-id model; filter-level one-ACT-per-trigger oracle",
    level_text="Random search over trigger histories (1-150 chunks: genuine triggers of every mode / version / id / port shape behind arbitrary prefix bytes, "
               "redraws of seen ids, look-alikes derived by truncating or corrupting a trigger, scroll-back transcripts as the current servers print them, "
               "tmux control-mode framing with and without tunnel) in client and relay mode, with and without the Windows flag. Oracle: differential against "
               "an independent hand-written scanner for the fields, a model of the guaranteed repeat window, a second detector on the rewritten output, and a client "
               "detector on the relayed output.",
    level_note="Per-read detection (objects under test are within one read). Repeats are asserted suppressed only within the guaranteed window (last 50 distinct "
               "remembered ids), never-seen ids are asserted to fire, in between nothing is asserted. Finished-transfer words are generated at least 40 bytes after "
               "the marker (what current servers print); the id-less pre-1.1 scroll-back blind spot is noted in DESIGN.md, not asserted.",
    rule="non-trivial = history of >=2 chunks or a genuine trigger behind a non-empty prefix; distinct by SHA-1 of the case JSON",
    tests=[
        dict(name="TestVF_C06", quick=dict(checks=80000, shards=8, timeout=300), thorough=dict(checks=3000000, shards=16, timeout=3000)),
    ],
)

PROPS["C01"] = dict(
    level="exploration", engine="E2 pair + E3 session", bins=True,
    technique="property-based testing (rapid): generated source trees x configurations x segmentations through the real sender and receiver; tree-equality, must-succeed and reported-names oracles",
    level_text="Random search over the product (tree shape and names, boundary-biased sizes, content kinds, direction, base64/binary, escape-all, compress, "
               "buffer size, overwrite, directory mode, negotiated protocol 1-4, Windows framing, tmux junk mode, segmentation per direction) with the "
               "real handshake, sender, receiver and exit exchange on both ends; oracle: both sides succeed, destination tree == source tree under the "
               "names predicted by the fresh-name rule, reported names == written names.",
    level_note="Pair engine: client-side and server-side transfer code joined in-process (the filter and the binaries are exercised by the session-engine "
               "tests). Names are valid UTF-8 without '/' and NUL; duplicate base names with -y are refused by design and not generated; no symlinks.",
    rule="non-trivial = at least one file with size>0 arrived intact and the configuration differs from all-defaults in >=1 dimension; distinct by SHA-1 of the case JSON",
    tests=[
        dict(name="TestVF_C01", env=dict(VERIF_CASE_LIMIT=300),
             quick=dict(checks=1600, shards=16, timeout=600), thorough=dict(checks=40000, shards=16, timeout=6000)),
        dict(name="TestVF_C01Session", env=dict(VERIF_CASE_LIMIT=300),
             quick=dict(checks=160, shards=32, timeout=600), thorough=dict(checks=4000, shards=32, timeout=6000)),
        dict(name="TestVF_C01ManyFiles", rapid=False, quick=dict(shards=8, timeout=600), thorough=dict(shards=16, timeout=600)),
    ],
)

PROPS["C07"] = dict(
    level="exploration", engine="E2 pair",
    technique="property-based testing (rapid): generated prior destination states x incoming name sets x repeated transfers; snapshot-invariance and fresh-name reference-model oracles",
    level_text="Random search over (prior destination state built around the incoming names: colliding files and directories, name.N series with gaps, wrong-type "
               "collisions, read-only entries, nested content; incoming single files, directories, same base name several times, 250-255 byte names; protocols 1-4 "
               "incl. archive mode; both receiving roles; 1-4 repeated transfers; the saturated name..name.999 series). Oracle: the (type, mode, size, SHA-1, mtime) "
               "snapshot of every pre-existing entry is unchanged; each incoming path lands whole under the name predicted by the reference rule; reported names == names used; "
               "saturation fails the transfer.",
    level_note="Pair engine (real sender/receiver code in-process). When a fresh name would exceed the file-name limit a failing transfer is accepted.",
    rule="non-trivial = at least one incoming top-level name collided with an existing entry; distinct by SHA-1 of the case JSON",
    tests=[dict(name="TestVF_C07", env=dict(VERIF_CASE_LIMIT=600),
                quick=dict(checks=1600, shards=16, timeout=600), thorough=dict(checks=40000, shards=16, timeout=6000))],
)

PROPS["C08"] = dict(
    level="exploration", engine="E2 pair",
    technique="property-based testing (rapid): (source, previous destination) pairs generated by relation and boundary offsets; byte-equality, bystander-snapshot and skip-bound oracles",
    level_text="Random search over (source content, previous destination content) pairs described by relation (absent, empty, strict prefix, identical, longer, diverging at "
               "offset d) with lengths and offsets on, just before and just after the 10 MiB comparison-block boundaries (files to 25 MiB), both directions, protocols 2, 3, 4, "
               "base64/binary, bystander files. Oracle: the transfer succeeds, destination == source byte for byte, bystanders' snapshots unchanged, and (from the tap) the size "
               "announced for the data phase is >= source size - longest common prefix.",
    level_note="Pair engine. Large cases use whole-write segmentation to keep the cost at about half a second.",
    rule="non-trivial = previous content exists and differs from the source in length or at some offset; distinct by SHA-1 of the case JSON",
    tests=[dict(name="TestVF_C08", env=dict(VERIF_CASE_LIMIT=600),
                quick=dict(checks=640, shards=16, timeout=900), thorough=dict(checks=16000, shards=16, timeout=8000))],
)

PROPS["C09"] = dict(
    level="exploration", engine="E2 pair (hostile sender)",
    technique="property-based testing (rapid): hostile peer-supplied names through the real sender into the real receiver inside a watched sandbox; outside-snapshot invariance oracle",
    level_text="Random search over hostile names ('..' in any position and multiplicity, embedded '/', absolute paths, empty and '.' elements, 4 KiB names; plain names, JSON path "
               "lists and archive entry headers) x overwrite x directory mode x protocols 1-4 x both receiving roles x delete-afterwards. The destination sits four levels deep in a "
               "sandbox with canary files on every level and in sibling directories; oracle: the snapshot (type, mode, size, SHA-1, mtime) of everything outside the destination is unchanged.",
    level_note="The real sender code is given a poisoned source list (real files, hostile names), so both ends run real code. '..' multiplicity is bounded by the sandbox depth so that the check "
               "itself never writes outside its scratch directory.",
    rule="non-trivial = some name would resolve outside the destination under a plain filepath.Join; distinct by SHA-1 of the case JSON",
    tests=[dict(name="TestVF_C09", env=dict(VERIF_CASE_LIMIT=300),
                quick=dict(checks=2400, shards=16, timeout=600), thorough=dict(checks=80000, shards=16, timeout=6000))],
)

PROPS["C02"] = dict(
    level="fault_enumeration", engine="E2 pair (byte faults on the harness wire)",
    technique="fault injection driven by rapid: byte-level faults at generated / boundary-biased offsets of either direction of real transfers; success-implies-identical oracle; exhaustive offsets for fixed scenarios",
    level_text="Each case first runs its scenario fault-free to learn both transcripts (message boundaries, phases), then re-runs it with 1-3 faults (bit flip, delete 1-3 bytes, "
               "duplicate 1-64 bytes, insert 1-8 generated bytes, truncate the tail) at offsets drawn half uniformly, half at message boundaries and field digits, in either "
               "direction, over direction x protocol 1-4 x base64/binary x escape x compress x Windows framing. Oracle: whenever a side reports success every destination file is "
               "byte-identical to its source. The thorough tier enumerates every offset of both transcripts of three fixed one-file scenarios for bit flip and 1-byte delete.",
    level_note="Pair engine: the fault domain is the whole connection from the ACT line on (there is no terminal trigger line in this engine). A watchdog expiry is counted as inconclusive (C11 decides hangs). "
               "The phase histogram in the evidence shows which protocol phases the faults landed in.",
    rule="non-trivial = at least one fault was applied inside the transcript of the faulted run; distinct by SHA-1 of the case JSON (scenario, fault kinds, selectors)",
    exhaustive_scope="3 fixed one-file scenarios x every offset of both directions x {bit flip, delete one byte}",
    tests=[
        dict(name="TestVF_C02", env=dict(VERIF_CASE_LIMIT=300),
             quick=dict(checks=800, shards=16, timeout=900), thorough=dict(checks=12000, shards=16, timeout=10000)),
        dict(name="TestVF_C02Exhaustive", rapid=False, env=dict(VERIF_CASE_LIMIT=300),
             quick=dict(shards=16, timeout=900, env=dict(VERIF_C02_STRIDE=37)), thorough=dict(shards=16, timeout=14000, env=dict(VERIF_C02_STRIDE=1))),
    ],
)

PROPS["C05"] = dict(
    level="exploration", engine="E3 session", bins=True,
    technique="property-based testing (rapid): generated histories of server output, user input and transfers through the exported filter; byte-for-byte pass-through oracle",
    level_text="Random search over histories of (server-output chunks, user-input chunks, transfers with outcome succeeded / refused / failed by killing the server / stopped) "
               "through one long-lived exported filter under all 16 option sets (drag detection, zmodem, OSC52, trace log). Output alphabets: random binary, terminal escape sequences, "
               "near-miss triggers, zmodem-like and OSC52 fragments, trace-log near-misses, protocol look-alikes, 1-70 KB blocks; input: random bytes, keys, bracketed paste, path-like text "
               "naming files that do not exist. Oracle: everything written to the terminal equals the server output fed, everything reaching the server equals the input typed, checked after "
               "every step and again after every transfer outcome (the filter must have left transfer mode).",
    level_note="Complete triggers, complete zmodem headers and the literal trace-log markers are excluded by construction and counted. The exit status is checked on the real trzsz binary in front of a pty "
               "(16 fixed runs: status 0/1/7/255 x four option sets), not on generated histories.",
    rule="non-trivial = at least two chunks were passed through; distinct by SHA-1 of the case JSON; labels report option sets and preceding transfer outcomes",
    tests=[dict(name="TestVF_C05", env=dict(VERIF_CASE_LIMIT=300),
                quick=dict(checks=2400, shards=16, timeout=600), thorough=dict(checks=120000, shards=32, timeout=6000))],
)

PROPS["C10"] = dict(
    level="fault_enumeration", engine="E3 session", bins=True,
    technique="fault enumeration: a stop injected at every (direction, message index, before|after) of real transfers, by every initiator; bounded-time, outcome and file-system oracles",
    level_text="For each scenario (single files / directory with resume hash exchange / archive / binary / old protocols; destinations with pre-existing colliding or partial content) "
               "a fault-free dry run numbers the protocol messages; then the transfer is re-run once per (direction, message index, before|after) x stop kind (keep / delete) x initiator "
               "(exported StopTransferringFiles, the real Ctrl-C + prompt UI path, SIGINT and SIGTERM to the real server). Oracle: both sides end within 12 s of the stop (T = 3 s configured), the "
               "server reports Stopped... or Saved, success only with every file complete and identical, delete removes exactly what this transfer created or had begun to replace, everything "
               "else at the destination is byte- and mtime-identical, plain stop keeps every file whose MD5 acknowledgement had passed before the stop.",
    level_note="The quick tier thins the enumeration with a stride that depends on VERIF_SEED; the thorough tier visits every point. Timing verdicts are re-run twice and reported only if they "
               "reproduce. Signals are not sent at the trigger line itself (the server installs its handlers just after printing it).",
    rule="non-trivial = the stop fired and the transfer ended stopped (not success); distinct by SHA-1 of the case JSON (scenario, event, kind, initiator)",
    tests=[dict(name="TestVF_C10", rapid=False, env=dict(VERIF_CASE_LIMIT=300),
                quick=dict(shards=32, timeout=1200, env=dict(VERIF_C10_STRIDE=9)),
                thorough=dict(shards=32, timeout=14000, env=dict(VERIF_C10_STRIDE=1)))],
)

PROPS["C11"] = dict(
    level="fault_enumeration", engine="E3 session", bins=True,
    technique="fault enumeration: silence, discard, connection write errors and local file faults injected at every message index of real transfers; bounded-time, fail-line and goroutine-leak oracles",
    level_text="For each scenario (T = 2 s) a fault-free dry run numbers the protocol messages; the transfer is then re-run once per (direction, message index >= 1, before|after) x fault "
               "(silence of either or both directions, write errors on the client's connection, sources shrunk or removed when the message passes; destination writes failing with ENOSPC "
               "through a /dev/full symlink under -y). Oracle: both sides return within 3*T+5 s of the fault (the client's bound is 65 s while it has not yet seen the CFG line), a side "
               "reporting success has every file complete and identical, a side that failed locally and can still talk sent a fail line, T+2 s after both returned no new goroutine "
               "of the client process is inside transfer code, and the server process has exited.",
    level_note="The server's wait for the ACT line has no timeout by design, so faults start after it. Timing verdicts are re-run twice and reported only if they reproduce. The thorough tier "
               "runs the same enumeration at stride 1 and includes the lost-CFG points. A sample of the points is run again on the yield-instrumented client with plans of 1-4 "
               "delays at weighted sites of the pipeline stages (channel operations, selects, cancellation, waits); deadlocks that need an interleaving the perturbation does not produce can be missed.",
    rule="non-trivial = the fault fired and the transfer did not simply succeed; distinct by SHA-1 of the case JSON (scenario, event, fault)",
    tests=[dict(name="TestVF_C11", rapid=False, env=dict(VERIF_CASE_LIMIT=300),
                quick=dict(shards=32, timeout=1800, env=dict(VERIF_C11_STRIDE=14)),
                thorough=dict(shards=32, timeout=20000, env=dict(VERIF_C11_STRIDE=1)))],
)

PROPS["C18"] = dict(
    level="fault_enumeration", engine="E3 session", bins=True,
    technique="fault enumeration: pause/resume cycles injected at every message index of real protocol-3/4 transfers through the real prompt UI and the transfer API; success, identical-files, bounded-time and no-data-while-paused oracles",
    level_text="For each protocol 3/4 scenario (T = 3 s, 2 KB buffer so that the probing phase and the ack window are visited) a dry run numbers the messages; the transfer is re-run once per "
               "(direction, message index, before|after) x pause profile (50 ms, 300 ms, 3 x 300 ms, 1.8 s, and T-0.4 s on a link that delivers 0.6 s late from eight messages before the pause until 1.5 s after it; "
               "thorough adds 3 s, 4.5 s, 2 x 1.2 s, T-0.4 s without latency, 2 x 1.2 s at 0.3 s latency, T-0.4 s at 0.4 s latency) x path (Ctrl-C + 'q' in the real prompt, "
               "pause/resume calls). Oracle: a pause shorter than T-0.3 s that was spent entirely in a keep-alive phase (only '=' lines from the client during the pause, data or an ack right after) must end in "
               "success on both sides with identical files at any latency; in the phases without keep-alives (tail of a file) success is demanded while pause + latency <= T-0.4 s; other cases end in "
               "success-with-identical-files or an error on both sides within the bound; from 150 ms after a pause began until resume the paused client starts no #DATA message other than the keep-alive.",
    level_note="Only the client can be paused (the prompt is a client feature). Nothing is asserted about the cadence of keep-alives. The final-ack / MD5 phase has no keep-alive in the protocol: there the peer sees pause + latency of silence.",
    rule="non-trivial = the pause point was reached and at least one pause/resume cycle was performed; distinct by SHA-1 of the case JSON",
    tests=[dict(name="TestVF_C18", rapid=False, env=dict(VERIF_CASE_LIMIT=300),
                quick=dict(shards=32, timeout=1800, env=dict(VERIF_C18_STRIDE=30)),
                thorough=dict(shards=32, timeout=20000, env=dict(VERIF_C18_STRIDE=4, VERIF_C18_LONG=1)))],
)

PROPS["C12"] = dict(
    level="exploration", engine="E1 unit + E3 session", bins=True,
    technique="property-based testing and native fuzzing of every parser of peer / terminal bytes; MITM field mutation of real transfers (boundary values into protocol fields) with crash, memory and session-usable oracles",
    level_text="(a) rapid-generated and coverage-guided byte streams built from a hostile token dictionary go through every parser that sees peer or terminal bytes (trigger detectors with history, zmodem, OSC52, "
               "drag detection for three platforms, prompt input, escape table, config / action / source / target JSON, decodeString, version and size parsers, the three line readers, the tmux and VT100 strippers). "
               "(b) real transfers on the session engine in which one or two fields (NUM, NAME members, SIZE, #DATA length, len/step acks, final ack, HASH and hash-ack members, COMP, MD5, EXIT, CFG and ACT members) are replaced "
               "by boundary values: negative, zero, off-by-one, 2^31, 2^62, MaxInt64, non-numeric, empty, 1 MiB, wrong JSON type, truncated encodings; the victim is the real server child (c2s) or the in-process client (s2c). "
               "Oracle: no crash and no recovered panic, both sides end within the bound, resident high-water mark within +512 MiB, and the session still passes a probe.",
    level_note="Shard processes run under a 6 GiB address-space limit so that an honoured >= 2^31 length field is a crash rather than a stall of the machine. Decompression bombs are outside the statement.",
    rule="non-trivial = (parsers) a non-empty stream; (roles) at least one rewrite was applied to a message that occurred; distinct by SHA-1 of the case JSON",
    tests=[
        dict(name="TestVF_C12Parsers", quick=dict(checks=40000, shards=8, timeout=600), thorough=dict(checks=4000000, shards=16, timeout=6000)),
        dict(name="TestVF_C12Roles", env=dict(VERIF_CASE_LIMIT=300),
             quick=dict(checks=320, shards=32, timeout=1200, vmem_kb=6291456), thorough=dict(checks=8000, shards=32, timeout=14000, vmem_kb=6291456)),
        dict(name="FuzzVF_C12Parsers", rapid=False, thorough=dict(shards=1, timeout=400, fuzz="120s", par=16)),
    ],
)

PROPS["C14"] = dict(
    level="exploration", engine="in-process relay rig + E3 session", bins=True,
    technique="property-based testing (rapid): generated client actions and server command lines through an in-process relay with the real sendConfig as the server; decoded-member narrowing oracle; generated sequences of transfers with every outcome through the same relay instances",
    level_text="(a) handshake level: random client actions (binary, support_dir, fork, protocol 0-9, newline, absent members, unknown extra keys) and server command lines (every trz/tsz option) through an in-process "
               "relay, inside and outside tmux; the server's answer is produced by the real sendConfig from the narrowed action. Oracle on decoded members: the ACT the server sees equals the client's except binary' = binary AND tunnel "
               "and protocol' = min(protocol, 4); the CFG the client sees equals the server's except tmux_output_junk may turn true and a non-positive tmux_pane_width may be filled; then EXIT returns the relay to standby and a probe passes. "
               "(b) sequences of 3-6 real transfers (succeeded, refused, failed by killing the server, stopped; uploads and downloads) through one or two relay instances on the session engine: every transfer behaves as without a relay "
               "(files identical), the trigger reaching the client carries #R, the ACT the server saw is narrowed, and probes pass both ways after every outcome.",
    level_note="Tunnel relaying needs real connections and is covered by the session-engine transfers of C01/C17, not by the handshake-level rig. End markers are kept within one read (DESIGN.md C14).",
    rule="non-trivial = (a) the action requests binary (explicitly or by default) or a protocol above 4, (b) a sequence of >= 2 transfers; distinct by SHA-1 of the case JSON",
    tests=[
        dict(name="TestVF_C14", quick=dict(checks=4000, shards=8, timeout=600), thorough=dict(checks=200000, shards=16, timeout=6000)),
        dict(name="TestVF_C14ServerDies", rapid=False, quick=dict(shards=2, timeout=300), thorough=dict(shards=2, timeout=300)),
        dict(name="TestVF_C14Seq", env=dict(VERIF_CASE_LIMIT=600), quick=dict(checks=48, shards=24, timeout=900), thorough=dict(checks=1200, shards=32, timeout=10000)),
    ],
)

PROPS["C17"] = dict(
    level="exploration", engine="E3 session (real loopback tunnel)", bins=True,
    technique="property-based testing (rapid): real tunnelled transfers attacked by generated foreign connections, connector faults and in-band junk; answered-only-to-the-exact-greeting, single-adoption, success and in-band-silence oracles",
    level_text="Random search over real transfers whose server child listens on a loopback port, with 0-4 foreign connections (wrong greeting, right prefix / wrong id, wrong port text, prefix only, greeting plus extra bytes, "
               "the right greeting from a second connection, greeting split over two writes, connect-and-silence, 1 MiB flood; each optionally followed by well-formed #fail: lines) at generated offsets relative to the genuine "
               "connection, connector outcomes (immediate, refuses, late by 0.5-1.5 s, returns a closed connection), 0/1 relay hop, and in-band junk both ways after the handshake. Oracle: a connection that presented anything but the exact "
               "greeting reads zero bytes and is closed; a second right greeting never receives protocol bytes; the transfer succeeds with identical files; once the tunnel is in use the client writes no protocol line in-band; when no tunnel "
               "comes up the transfer completes in-band with the same destination.",
    level_note="Winner selection among simultaneous right greetings is a race; arrival orders are sampled, not enumerated. Schedule perturbation of acceptOnTunnel / connectToTunnel is not part of this check.",
    rule="non-trivial = at least one foreign connection, a connector fault or in-band junk; distinct by SHA-1 of the case JSON",
    tests=[dict(name="TestVF_C17", env=dict(VERIF_CASE_LIMIT=300), quick=dict(checks=192, shards=32, timeout=900), thorough=dict(checks=4000, shards=32, timeout=10000))],
)

PROPS["C19"] = dict(
    level="exploration", engine="E3 session with fake rz/sz helpers", bins=True, fakezm=True,
    technique="property-based testing (rapid): generated helper behaviours, scripted server behaviours and Ctrl-C times around a real zmodem session of the exported filter; bounded-time hand-back oracle",
    level_text="Random search over helper behaviours (talks, never produces output, exits at once with 0 / non-zero, produces output 600 ms late, missing from PATH), server behaviours (finishes, cancels before / after the "
               "helper starts, keeps sending for 1.25 s, goes quiet; reacts to the cancel sequence with a prompt or stays quiet), Ctrl-C at 0-1200 ms, upload and download, and headers accompanied by a cancel run or a 'cannot open' "
               "message. Oracle: a header with such company starts no helper and passes through; a lone header starts the helper; after the end event the waiting server receives the cancel sequence; 1.5 s after the end event and the "
               "server's last output (0.5 s quiet + 1 s slack) a probe from the server reaches the terminal and typed input reaches the server.",
    level_note="Bounded-time form of the liveness claim; 'always' is not established. Timing verdicts are re-run twice and reported only if they reproduce both times. The helpers are small fakes built from /verif/tools/fakezm; "
               "the start header arrives within one read, as the detector works per read.",
    rule="non-trivial = a session with an end event, or a header with a veto; distinct by SHA-1 of the case JSON",
    tests=[dict(name="TestVF_C19", env=dict(VERIF_CASE_LIMIT=300), quick=dict(checks=192, shards=32, timeout=900, shrink="60s"), thorough=dict(checks=3000, shards=32, timeout=10000, shrink="120s")),
           dict(name="TestVF_C19Timeouts", rapid=False, env=dict(VERIF_CASE_LIMIT=300), quick=dict(shards=16, timeout=300), thorough=dict(shards=16, timeout=300))],
)

PROPS["C13"] = dict(
    level="exploration", engine="E4 relay-sched (yield-instrumented in-process relay)",
    technique="schedule fuzzing + property-based testing (rapid): generated arrival patterns around the relay's handshake and generated delay plans at textual yield points of relay.go / buffer.go; positional byte-conservation oracle",
    level_text="An in-process relay built from the yield-instrumented relay.go and buffer.go of the current tree is driven by a scripted client and server: 1-3 consecutive transfers, standby chunks both ways, a trigger chunk with "
               "prefix and suffix, the ACT line and the client bytes after it cut anywhere (inside the line, exactly at its newline, one chunk), the CFG line and the server bytes after it likewise and delivered before or after the "
               "forwarded ACT, transfer-phase chunks, an end marker (#EXIT / #fail / #FAIL / lone Ctrl-C from either side), outcomes confirm / client cancels / malformed ACT / malformed CFG; plus a plan of 0-4 (site, hit, delay) triples "
               "over the instrumented sites (status / lock / buffer / channel sites weighted x4; delays Gosched x1..20, 100 us .. 20 ms). Oracle: positional conservation - the stream towards the server is the standby bytes, then exactly "
               "the relay-made lines expected for the outcome, then every client byte after the consumed line, in order; likewise towards the client with the relayed trigger; after the end marker both directions are the identity again.",
    level_note="Go's scheduler is not owned: delays at instrumented points sample interleavings, no exhaustiveness claim. Standby traffic is fully relayed before a trigger is fed and nothing but the ACT / CFG line is sent between trigger and "
               "handshake line (bytes in front of a handshake line are discarded by design). End markers are fed once the relay is transferring (DESIGN.md, observation on C14).",
    rule="non-trivial = at least one byte besides the ACT/CFG line was fed while the relay was handshaking, or a chunk boundary fell inside the ACT line; distinct by SHA-1 of the case JSON; labels report how often a delay fired",
    tests=[dict(name="TestVF_C13", env=dict(VERIF_CASE_LIMIT=120), quick=dict(checks=4000, shards=16, timeout=900), thorough=dict(checks=100000, shards=16, timeout=10000))],
)
PROPS["C13"]["yield"] = ["relay.go", "buffer.go"]

PROPS["C06"]["bins"] = True
PROPS["C06"]["tests"].append(dict(name="TestVF_C06Filter", env=dict(VERIF_CASE_LIMIT=120),
                                  quick=dict(checks=160, shards=32, timeout=600), thorough=dict(checks=3000, shards=32, timeout=6000)))

PROPS["C05"]["tests"].append(dict(name="TestVF_C05Exit", rapid=False, quick=dict(shards=8, timeout=300), thorough=dict(shards=8, timeout=300)))

PROPS["C10"]["yield"] = ["transfer.go", "pipeline.go", "buffer.go", "filter.go", "append.go"]
PROPS["C10"]["tests"].append(dict(name="TestVF_C10Perturbed", rapid=False, env=dict(VERIF_CASE_LIMIT=300),
                                  quick=dict(shards=32, timeout=1200, env=dict(VERIF_C10P_STRIDE=40)),
                                  thorough=dict(shards=32, timeout=14000, env=dict(VERIF_C10P_STRIDE=1))))

PROPS["C11"]["yield"] = ["transfer.go", "pipeline.go", "buffer.go", "filter.go", "append.go", "archive.go"]
PROPS["C11"]["tests"].append(dict(name="TestVF_C11Perturbed", rapid=False, env=dict(VERIF_CASE_LIMIT=300),
                                  quick=dict(shards=32, timeout=1800, env=dict(VERIF_C11P_STRIDE=12)),
                                  thorough=dict(shards=32, timeout=20000, env=dict(VERIF_C11P_STRIDE=1))))

PROPS["C12"]["tests"].append(dict(name="TestVF_C12Hostile", env=dict(VERIF_CASE_LIMIT=300),
                                  quick=dict(checks=960, shards=16, timeout=900, vmem_kb=6291456), thorough=dict(checks=40000, shards=16, timeout=10000, vmem_kb=6291456)))

PROPS["C17"]["tests"].append(dict(name="TestVF_C17Overlap", env=dict(VERIF_CASE_LIMIT=300),
                                  quick=dict(checks=32, shards=16, timeout=900, shrink="60s"), thorough=dict(checks=320, shards=16, timeout=6000, shrink="120s")))

PROPS["C12"]["tests"].append(dict(name="TestVF_C12Relay", env=dict(VERIF_CASE_LIMIT=120),
                                  quick=dict(checks=1600, shards=16, timeout=600), thorough=dict(checks=64000, shards=16, timeout=6000)))

PROPS["C12"]["tests"].append(dict(name="TestVF_C12Archive", env=dict(VERIF_CASE_LIMIT=120),
                                  quick=dict(checks=16000, shards=8, timeout=600), thorough=dict(checks=1600000, shards=16, timeout=6000)))

# native fuzz targets (thorough tier only; Go's fuzzer cannot be pinned to a seed, a saved crasher is the reproducible unit)
for _pid in ["C03", "C04", "C06", "C15", "C16", "C20"]:
    PROPS[_pid]["tests"].append(dict(name="FuzzVF_%s" % _pid, rapid=False, thorough=dict(shards=1, timeout=400, fuzz="90s", par=16)))


# ---- amendments to the level texts after the third round of seeded changes (the checks were strengthened; see DESIGN §8.2) ----
def _amend(pid, old, new):
    t = PROPS[pid]["level_text"]
    assert old in t, (pid, old)
    PROPS[pid]["level_text"] = t.replace(old, new, 1)


_amend("C01", "reported names == written names.",
       "reported names == written names. A many-files test (180 files, protocols 1-4, descriptor census in-process and the real binaries under RLIMIT_NOFILE 80) "
       "covers descriptors that grow with the file count.")
_amend("C02", "insert 1-8 generated bytes, truncate the tail) at offsets",
       "insert 1-8 generated bytes, truncate the tail, whole-line loss / duplication; and cooperating pairs: a SIZE or NUM changed towards the receiver with its echo "
       "repaired towards the sender) at offsets")
_amend("C09", "x both receiving roles x delete-afterwards.",
       "x both receiving roles x delete-afterwards x how the user spelled the destination (clean, trailing separator, './', 'x/../', doubled separator) x empty / non-empty destination.")
_amend("C09", "of everything outside the destination is unchanged.",
       "of everything outside the destination is unchanged and the destination directory itself still exists.")
_amend("C10", "binary / old protocols; destinations", "binary / old protocols / two of them over the TCP tunnel; destinations")
_amend("C11", "through a /dev/full symlink under -y).",
       "through a /dev/full symlink under -y; over the tunnel: either direction of the TCP connection silent, the connection broken).")
_amend("C11", "is inside transfer code,", "is inside transfer code or inside a zstd stream the transfer opened,")
_amend("C15", "never creates a path that is not in the source.",
       "never creates a path that is not in the source. Every piece is handed to the writer in one reused buffer that is overwritten after the call.")
_amend("C17", "in-band junk both ways after the handshake.",
       "in-band junk both ways once the server has answered over the tunnel, and an impostor (the client's own dial reaches something that answers with one of ten wrong "
       "greetings and forged lines).")
_amend("C17", "a second right greeting never receives protocol bytes;", "a second right greeting never receives protocol bytes; the client never writes to an impostor;")
_amend("C19", "and typed input reaches the server.",
       "and typed input reaches the server. A second test covers sessions that nothing ends but the 20 s inactivity timers (silent or mute lingering helper, quiet server or "
       "goodbye-then-silence, no Ctrl-C): an end message within 27 s, then the same hand-back checks.")

# ---- after rounds 4 and 5 of seeded changes ----
_amend("C01", "covers descriptors that grow with the file count.",
       "covers descriptors that grow with the file count. In quiet mode the pair engine hands over the typed-nil progress bar exactly as TrzszFilter does; in directory mode "
       "a sub-directory of the first path may be named on the command line as well.")
_amend("C02", "repaired towards the sender) at offsets",
       "repaired towards the sender; consistent re-coding of the hash lines / hash acknowledgements of a resumed transfer with a changed step; uncompressed files of an exact "
       "multiple of 32 KiB with the damage inside the file data) at offsets")
_amend("C09", "x empty / non-empty destination.",
       "x empty / non-empty destination; a 'subtle' mode puts elements that only become a parent step once cleaned ('./..', 'x/../..') after plain first names.")
_amend("C10", "SIGINT and SIGTERM to the real server).",
       "SIGINT and SIGTERM to the real server, and a user who looks at the stop question for 2.2 s: the time from his choice to the end of both sides is compared with an "
       "immediate choice at the same point).")
_amend("C11", "the connection broken).",
       "the connection broken; a save stage that stalls 1.2 s in front of a failing write of a long compressed stream).")
_amend("C17", "and forged lines).",
       "and forged lines). A connection accepted before the adoption that presents the right greeting afterwards must never be used. A second test keeps a 20 MiB transfer "
       "running in the background (-f over its tunnel) while two more transfers run beside it through the same relays; all three must end intact.")
_amend("C19", "then the same hand-back checks.",
       "then the same hand-back checks. The server's data carries ZDLE bytes, also as the last byte of a read.")
PROPS["C12"]["level_text"] += (" TestVF_C12Archive feeds generated archive streams (entry headers with every member hostile: negative / huge / non-integer sizes, odd path lists, "
                               "permission bits, raw lines; payloads of any length) to the real archive writer in any segmentation: no panic, nothing created outside the destination. "
                               "TestVF_C12Relay sends a real relay well-formed ACT / CFG lines whose payload is not the expected object (null, [], 5, ...) or carries hostile members.")
PROPS["C05"]["level_text"] += (" Histories also hold a drag that is taken back (paths kept from the server by design, the key goes through, output keeps passing) and, beside every "
                               "download the wrapper refuses by itself, 400 ms of remote lines and typed tokens that must all get through.")
PROPS["C03"]["level_text"] += " Reads that start at a chunk boundary and end inside the next chunk may be issued with an already-fired timer: a read that times out has consumed nothing."

# ---- after round 7 of seeded changes and finding F16 ----
PROPS["C14"]["level_text"] += (" The relay rig ends a transfer in four ways (EXIT once the relay is transferring; the client's #fail: while the relay still waits for a slow "
                               "server's configuration; EXIT right behind the configuration; the server's #fail: in the same write as its configuration) and the e2e sequences "
                               "hold the server (SIGSTOP) before the action reaches it and stop the client or interrupt the server in that window (F16).")
PROPS["C05"]["level_text"] += " Stopped / interrupted transfers may end while the server is held before it has seen the action; reads may end one byte behind the OSC52 introducer."
PROPS["C06"]["level_text"] += " Scrollback cases place finished trigger words at offsets 40..45 of the look-ahead window."
PROPS["C13"]["level_text"] += " One profile parks several thousand small pieces during one handshake while the server answers late."
PROPS["C18"]["level_text"] += " Pause points inside the buffer-probing phase are never thinned by the quick tier's stride."

# ---- verdicts of tests that drive real processes (or rigs with waits of seconds) are confirmed alone (see bin/check and DESIGN §8.2) ----
for _pid, _names in {"C14": ["TestVF_C14Seq", "TestVF_C14"], "C17": ["TestVF_C17", "TestVF_C17Overlap"], "C19": ["TestVF_C19"],
                     "C05": ["TestVF_C05"], "C13": ["TestVF_C13"]}.items():
    for _t in PROPS[_pid]["tests"]:
        if _t["name"] in _names:
            _t["confirm_alone"] = True

# ---- after round 8 of seeded changes (something ends, fails or is slow at an unusual moment) ----
PROPS["C18"]["tests"].append(dict(name="TestVF_C18LateAck", rapid=False, env=dict(VERIF_CASE_LIMIT=300),
                                  quick=dict(shards=10, timeout=600), thorough=dict(shards=16, timeout=3000, env=dict(VERIF_C18_LONG=1))))
PROPS["C18"]["level_text"] += (" TestVF_C18LateAck: an upload whose server acknowledges one chunk 2.3 s late (the sender reduces its chunk size and cuts the buffers it had "
                               "queued into pieces); the pause is set from inside the write of the N-th file data line after that, N = 1..10 (16): until the resume not one "
                               "more file data line may be written, and the transfer succeeds.")
for _t in PROPS["C08"]["tests"]:
    if _t["name"] == "TestVF_C08":
        _t["confirm_alone"] = True
PROPS["C01"]["level_text"] += " One profile writes the single destination file to a medium that stops taking data for 3.3 s (timeout 2 s) once the first bytes are written: the transfer must succeed."
PROPS["C03"]["level_text"] += " Reads continue behind an interrupt whose LF came in the same read; at the end whatever the reads left is handed on piece by piece (popBuffer) and must equal the rest of the stream."
PROPS["C07"]["level_text"] += " In a quarter of the cases the receiver's link to the sender breaks at one of its first eight writes in the last round: pre-existing entries are still untouched."
PROPS["C08"]["level_text"] += " Multi-block resumes are also run against a receiver that acknowledges names and hashes 1.8 s late each (timeout 3 s): they must succeed."
PROPS["C13"]["level_text"] += " An outcome 'gave_up' puts the client's #fail: line (whole) right behind its action while the server's configuration comes with data behind it."
PROPS["C15"]["level_text"] += " A source file may also shrink while its entry is being read (after 0-100 % of its payload has been produced): an error is due whenever part of it was still to come."
PROPS["C17"]["level_text"] += " A third of the cases add in-band chatter both ways every 60 ms from the server's first tunnel line until the transfer is over: it must end within 22 s all the same."
PROPS["C19"]["level_text"] += " In half of the cases the first thing after the hand-back is the user typing (keys with an erase, or a lone Ctrl-C) while the server stays quiet: all of it reaches the server."
PROPS["C20"]["level_text"] += " The terminal may be resized while the bar is paused."
PROPS["C01"]["level_text"] += " A 'long line' profile delivers everything the receiver writes 0.6-2.2 s late (the sender's chunk-size adaptation then takes its slow branches)."

# ---- every verdict of a test that can replay a saved case is confirmed alone (a stall of the whole machine - a snapshot, a suspend - lets
# ---- every timeout of every running case expire at once; four C07 verdicts of a thorough pass were of that kind) ----
_NO_REPLAY = ("Fuzz", "TestVF_C03Exhaustive", "TestVF_C04AllBytes", "TestVF_C16KnownF12", "TestVF_C15Exhaustive", "TestVF_C02Exhaustive",
              "TestVF_C05Exit", "TestVF_C14ServerDies", "TestVF_C01ManyFiles", "TestVF_C19Timeouts")
for _pid in PROPS:
    for _t in PROPS[_pid]["tests"]:
        if not _t["name"].startswith(_NO_REPLAY):
            _t["confirm_alone"] = True
