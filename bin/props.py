# Per-property run configuration for /verif/bin/check.
# tests[*]: name = Go test (or fuzz) function in the injected harness; quick/thorough = dict(checks=total rapid
# cases over all shards, shards=processes, timeout=per-shard seconds, env=..., fuzz="60s" for native fuzz targets).

PROPS = {}
NOT_APPLICABLE = {}
ENGINES = [
    dict(name="E1 unit", path="/verif/harness/trzsz", serves_properties=["C03", "C04", "C06", "C12", "C15", "C16", "C20"],
         kind_free_text="in-package rapid properties and native fuzz targets against a reference model"),
    dict(name="E2 pair", path="/verif/harness/trzsz", serves_properties=["C01", "C02", "C04", "C07", "C08", "C09"],
         kind_free_text="real sender and receiver transfer objects joined by a harness-owned wire (segmenter, tap, faults)"),
    dict(name="E3 session", path="/verif/harness/trzsz", serves_properties=["C01", "C02", "C05", "C06", "C10", "C11", "C12", "C14", "C17", "C18", "C19"],
         kind_free_text="exported filter in-process against the real trz/tsz binaries as child processes over the harness wire"),
    dict(name="E4 relay-sched", path="/verif/harness/trzsz", serves_properties=["C13"],
         kind_free_text="in-process relay built from yield-instrumented sources with generated arrival pattern and schedule plan"),
]

PROPS["C03"] = dict(
    level="exploration", engine="E1 unit",
    technique="property-based testing (rapid) against a reference stream parser; exhaustive enumeration of short streams x segmentations",
    level_text="Random search over (stream, segmentation, read sequence) compared with an independent single-cursor reference "
               "parser and a deterministic no-over-pull check; the thorough tier enumerates every stream of length <= 6 over the "
               "six-symbol alphabet with every segmentation and 8 read schedules. Exploration is the right level: the property "
               "is a for-all over inputs with a cheap exact oracle.",
    level_note="Trusts the reference parser in the harness (40 lines, written from the statement) and rapid. Reads that "
               "cannot complete are never issued; behaviour after an interrupt is not compared.",
    rule="rapid draws (byte stream, segmentation into non-empty reads, sequence of strict-line / junk-tolerant-line / "
         "binary(n) reads); reference = single-cursor parser written from the statement; plus no-over-pull check "
         "(chunks pulled == index of the chunk holding the last needed byte). Non-trivial = >=2 chunks and >=1 "
         "operation whose result spans a chunk boundary; distinct by SHA-1 of the case JSON. The exhaustive "
         "sub-space (thorough) is counted by enumeration.",
    exhaustive_scope="all streams of length<=VERIF_C03_MAXLEN over {a,LF,CR,#,:,Ctrl-C} x all 2^(n-1) segmentations x 8 operation schedules",
    tests=[
        dict(name="TestVF_C03",
             quick=dict(checks=160000, shards=8, timeout=300),
             thorough=dict(checks=4000000, shards=16, timeout=3000)),
        dict(name="TestVF_C03Exhaustive", rapid=False,
             quick=dict(shards=4, timeout=300, env=dict(VERIF_C03_MAXLEN=4)),
             thorough=dict(shards=16, timeout=3000, env=dict(VERIF_C03_MAXLEN=6))),
    ],
)
