//go:build verif

// Native (coverage-guided) fuzz targets, thorough tier only. Each one drives the same generator and oracle as the rapid
// property of its check through rapid.MakeFuzz, so the fuzzer's bytes are decoded into structured cases.

package trzsz

import (
	"testing"

	"pgregory.net/rapid"
)

func vfFuzz[T any](f *testing.F, gen func(*rapid.T) T, run func(T) string) {
	f.Add([]byte{0})
	f.Add([]byte("\x01\x02\x03\x04\x05\x06\x07\x08\x09\x0a\x0b\x0c\x0d\x0e\x0f\x10\x11\x12\x13\x14\x15\x16\x17\x18"))
	f.Fuzz(rapid.MakeFuzz(func(rt *rapid.T) {
		cs := gen(rt)
		if msg := vfGuard(func() string { return run(cs) }); msg != "" {
			rt.Fatalf("%s\ncase: %s", msg, vfCanon(cs))
		}
	}))
}

func FuzzVF_C03(f *testing.F) {
	vfFuzz(f, vfGenC03, func(cs vfC03Case) string { m, _, _ := vfC03Run(cs); return m })
}

func FuzzVF_C04(f *testing.F) {
	vfFuzz(f, vfGenC04, func(cs vfC04Case) string { m, _ := vfC04Run(cs); return m })
}

func FuzzVF_C06(f *testing.F) {
	vfFuzz(f, vfGenC06, func(cs vfC06Case) string { m, _, _ := vfC06Run(cs); return m })
}

func FuzzVF_C16(f *testing.F) {
	vfFuzz(f, vfGenC16, func(cs vfC16Case) string { return vfC16Run(cs) })
}

func FuzzVF_C20(f *testing.F) {
	vfFuzz(f, vfGenC20, func(cs vfC20Case) string { m, _ := vfC20Run(cs); return m })
}

func FuzzVF_C15(f *testing.F) {
	vfFuzz(f, vfGenC15, func(cs vfC15Case) string { var r vfC15Res; return vfC15Run(cs, &r) })
}
