//go:build verif

// Optional part of the C04 harness: direct calls of the one-shot codec functions. The driver leaves a *_opt_test.go file out when
// it no longer compiles against the tree (an internal signature changed); the checks then reach the codec through the streaming
// writer and reader only.

package trzsz

func init() {
	vfEscapeDirect = func(data []byte, table *escapeTable) []byte { return escapeData(data, table) }
	vfUnescapeDirect = func(data []byte, table *escapeTable) ([]byte, []byte, error) { return unescapeData(data, table, nil) }
}
