//go:build verif

// C08 — with -y the destination ends up identical to the source whatever was there (pair engine).

package trzsz

import (
	"strings"
	"bytes"
	"fmt"
	"os"
	"path/filepath"
	"strconv"
	"testing"
	"time"

	"pgregory.net/rapid"
)

type vfC08File struct {
	Name     string `json:"name"`
	SrcSize  int64  `json:"src_size"`
	Kind     int    `json:"kind"`
	Seed     uint64 `json:"seed"`
	Relation string `json:"relation"` // absent empty prefix identical longer diverge
	PrevSize int64  `json:"prev_size"`
	Diverge  int64  `json:"diverge"` // first differing offset for "diverge"
}

type vfC08Case struct {
	Cfg   vfPairCfg   `json:"cfg"`
	Files []vfC08File `json:"files"`
	// SlowAckMs > 0: a receiver on a slow disk - each of its name / hash acknowledgements goes out that much late (less than the
	// timeout each, more than the timeout together). A cooperative peer on a fault-free link: the transfer must still succeed.
	SlowAckMs int `json:"slow_ack_ms,omitempty"`
}

const vfMi = 1 << 20

func vfC08Prev(f vfC08File, src []byte) []byte {
	switch f.Relation {
	case "absent":
		return nil
	case "empty":
		return []byte{}
	case "prefix":
		n := f.PrevSize
		if n >= int64(len(src)) {
			n = int64(len(src)) - 1
		}
		if n < 0 {
			n = 0
		}
		return append([]byte(nil), src[:n]...)
	case "identical":
		return append([]byte(nil), src...)
	case "longer":
		extra := f.PrevSize
		if extra < 1 {
			extra = 1
		}
		return append(append([]byte(nil), src...), vfContent(vfKindNoise, f.Seed+9, extra)...)
	default: // diverge at offset d (d < both lengths)
		n := f.PrevSize
		if n < 1 {
			n = 1
		}
		prev := make([]byte, n)
		copy(prev, src)
		if int64(len(src)) < n {
			copy(prev[len(src):], vfContent(vfKindText, f.Seed+5, n-int64(len(src))))
		}
		d := f.Diverge
		if d >= n {
			d = n - 1
		}
		if d >= int64(len(src)) && len(src) > 0 {
			d = int64(len(src)) - 1
		}
		if d < 0 {
			d = 0
		}
		prev[d] ^= 0x55
		// everything after the divergence differs as well (a stale tail)
		for i := d + 1; i < n && i < d+64; i++ {
			prev[i] ^= 0xAA
		}
		return prev
	}
}

func vfLCP(a, b []byte) int64 {
	n := len(a)
	if len(b) < n {
		n = len(b)
	}
	for i := 0; i < n; i++ {
		if a[i] != b[i] {
			return int64(i)
		}
	}
	return int64(n)
}

func vfC08Run(cs vfC08Case, nontrivial *bool) string {
	base, err := os.MkdirTemp("", "vfc08")
	if err != nil {
		return "mkdtemp: " + err.Error()
	}
	defer os.RemoveAll(base)
	src := filepath.Join(base, "src")
	dest := filepath.Join(base, "dest")
	os.MkdirAll(src, 0755)
	os.MkdirAll(dest, 0755)
	var paths []string
	lcp := map[string]int64{}
	srcs := map[string][]byte{}
	for _, f := range cs.Files {
		data := vfContent(f.Kind, f.Seed, f.SrcSize)
		if err := os.WriteFile(filepath.Join(src, f.Name), data, 0644); err != nil {
			return ""
		}
		paths = append(paths, filepath.Join(src, f.Name))
		srcs[f.Name] = data
		prev := vfC08Prev(f, data)
		if prev != nil {
			os.WriteFile(filepath.Join(dest, f.Name), prev, 0644)
			lcp[f.Name] = vfLCP(prev, data)
			if !bytes.Equal(prev, data) {
				*nontrivial = true
			}
		}
	}
	os.WriteFile(filepath.Join(dest, "bystander.txt"), []byte("do not touch"), 0600)
	os.MkdirAll(filepath.Join(dest, "bystander.d"), 0755)
	os.WriteFile(filepath.Join(dest, "bystander.d", "x"), []byte("nested bystander"), 0644)
	old := time.Now().Add(-24 * time.Hour)
	for _, p := range []string{"bystander.txt", "bystander.d/x"} {
		os.Chtimes(filepath.Join(dest, p), old, old)
	}
	by1, _ := vfSnapshotOne(filepath.Join(dest, "bystander.txt"))
	by2, _ := vfSnapshot(filepath.Join(dest, "bystander.d"))
	st1, _ := os.Stat(filepath.Join(dest, "bystander.txt"))

	vfCurCase("TestVF_C08", cs)
	r := vfNewPair(cs.Cfg)
	r.propagate = true
	slowed := 0
	if cs.SlowAckMs > 0 {
		back := r.s2c // the receiver's link to the sender
		if !cs.Cfg.Upload {
			back = r.c2s
		}
		back.onMsg = func(m vfMsg, before bool) {
			if !before {
				return
			}
			if all := back.messages(); m.Idx < len(all) {
				m = all[m.Idx] // type and text are known once the whole line has been written (acknowledgements go out in one write)
			}
			if strings.HasPrefix(m.Txt, "#SUCC:eJ") {
				slowed++
				time.Sleep(time.Duration(cs.SlowAckMs) * time.Millisecond)
			}
		}
	}
	r.run(paths, dest, 240*time.Second)
	if cs.SlowAckMs > 0 && slowed >= 3 {
		*nontrivial = true
	}
	if r.hung {
		return "fault-free overwrite transfer did not finish: " + r.describe()
	}
	if r.clientErr != nil || r.serverErr != nil {
		return "fault-free overwrite transfer failed: " + r.describe()
	}
	for _, f := range cs.Files {
		got, err := os.ReadFile(filepath.Join(dest, f.Name))
		if err != nil {
			return fmt.Sprintf("destination %q: %v", f.Name, err)
		}
		if !bytes.Equal(got, srcs[f.Name]) {
			return fmt.Sprintf("destination %q (%d bytes) differs from source (%d bytes) at offset %d; relation=%s prev_size=%d diverge=%d",
				f.Name, len(got), len(srcs[f.Name]), vfLCP(got, srcs[f.Name]), f.Relation, f.PrevSize, f.Diverge)
		}
	}
	a1, _ := vfSnapshotOne(filepath.Join(dest, "bystander.txt"))
	a2, _ := vfSnapshot(filepath.Join(dest, "bystander.d"))
	st2, _ := os.Stat(filepath.Join(dest, "bystander.txt"))
	if d := vfDiffSnap(by1, a1, true); d != "" {
		return "bystander changed: " + d
	}
	if d := vfDiffSnap(by2, a2, true); d != "" {
		return "bystander directory changed: " + d
	}
	if st1 != nil && st2 != nil && (st1.ModTime() != st2.ModTime() || st1.Mode() != st2.Mode()) {
		return "bystander.txt metadata changed"
	}
	// skipping never exceeds the proven common prefix: the SIZE announced for the data phase of each file
	if cs.Cfg.Protocol >= 3 {
		link := r.c2s
		if !cs.Cfg.Upload {
			link = r.s2c
		}
		msgs := link.messages()
		tr := link.transcript()
		fi := -1
		lastSize := map[int]int64{}
		for _, m := range msgs {
			if m.Typ == "NAME" {
				fi++
			}
			if m.Typ == "SIZE" && fi >= 0 {
				line := bytes.TrimRight(tr[m.Off:m.Off+int64(m.Len)], "!\n")
				if v, err := strconv.ParseInt(string(line[6:]), 10, 64); err == nil {
					lastSize[fi] = v
				}
			}
		}
		for i, f := range cs.Files {
			rem, ok := lastSize[i]
			if !ok {
				return fmt.Sprintf("no SIZE message seen for file %d", i)
			}
			if rem < f.SrcSize-lcp[f.Name] {
				return fmt.Sprintf("file %q: only %d bytes re-sent, but source (%d) and previous content share just %d bytes", f.Name, rem, f.SrcSize, lcp[f.Name])
			}
		}
	}
	return ""
}

func vfGenC08(rt *rapid.T) vfC08Case {
	var cs vfC08Case
	large := rapid.IntRange(0, 14).Draw(rt, "large") == 0
	n := rapid.IntRange(1, 3).Draw(rt, "nfiles")
	if large {
		n = 1
	}
	var total int64
	midresume := false
	for i := 0; i < n; i++ {
		var f vfC08File
		f.Name = fmt.Sprintf("f%d-%s", i, vfGenFsName(rt, "name"))
		f.Kind = rapid.SampledFrom([]int{vfKindZeros, vfKindText, vfKindNoise, vfKindEscapeRich}).Draw(rt, "kind")
		f.Seed = rapid.Uint64Range(1, 1<<30).Draw(rt, "seed")
		f.Relation = rapid.SampledFrom([]string{"absent", "empty", "prefix", "identical", "longer", "diverge", "diverge", "prefix"}).Draw(rt, "relation")
		if large {
			f.Kind = rapid.SampledFrom([]int{vfKindZeros, vfKindText}).Draw(rt, "lkind")
			f.SrcSize = rapid.SampledFrom([]int64{10*vfMi - 1, 10 * vfMi, 10*vfMi + 1, 12 * vfMi, 20*vfMi - 1, 20 * vfMi, 20*vfMi + 1, 21 * vfMi, 25 * vfMi, 3 * vfMi}).Draw(rt, "lsize")
			f.PrevSize = rapid.SampledFrom([]int64{1, 10*vfMi - 1, 10 * vfMi, 10*vfMi + 1, 15 * vfMi, 20 * vfMi, 20*vfMi + 1, 22 * vfMi}).Draw(rt, "lprev")
			f.Diverge = rapid.SampledFrom([]int64{0, 1, 10*vfMi - 1, 10 * vfMi, 10*vfMi + 1, 13 * vfMi, 20*vfMi - 1, 20 * vfMi, 20*vfMi + 1}).Draw(rt, "ldiv")
		} else {
			f.SrcSize = vfGenSize(rt, "src", true)
			if rapid.IntRange(0, 9).Draw(rt, "emptysrc") == 0 {
				f.SrcSize = 0
			}
			f.PrevSize = vfGenSize(rt, "prev", true)
			if f.PrevSize > 0 {
				f.Diverge = rapid.Int64Range(0, f.PrevSize).Draw(rt, "div")
			}
		}
		if !large && rapid.IntRange(0, 9).Draw(rt, "midresume") == 0 {
			// a resumed transfer whose unsent rest is a few hundred KiB (the compression probe looks at up to three 128 KiB samples)
			f.Kind = rapid.SampledFrom([]int{vfKindText, vfKindNoise, vfKindHeadCompressible}).Draw(rt, "mkind")
			rest := rapid.SampledFrom([]int64{100 << 10, 128 << 10, 129 << 10, 200 << 10, 256 << 10, 300 << 10, 383 << 10, 384 << 10, 500 << 10}).Draw(rt, "mrest")
			f.PrevSize = rapid.SampledFrom([]int64{1, 1000, 100 << 10, 128 << 10}).Draw(rt, "mprev")
			f.SrcSize = f.PrevSize + rest
			f.Relation = rapid.SampledFrom([]string{"prefix", "prefix", "diverge"}).Draw(rt, "mrel")
			f.Diverge = f.PrevSize
			midresume = true
		}
		total += f.SrcSize
		cs.Files = append(cs.Files, f)
	}
	cs.Cfg = vfGenPairCfg(rt, total)
	if midresume {
		cs.Cfg.Compress = 0
	}
	cs.Cfg.Overwrite = true
	cs.Cfg.Directory = rapid.Bool().Draw(rt, "dirmode")
	cs.Cfg.Protocol = rapid.SampledFrom([]int{2, 3, 4, 3, 4}).Draw(rt, "proto")
	cs.Cfg.Progress = rapid.IntRange(0, 5).Draw(rt, "progress") == 0
	if large {
		cs.Cfg.SegC2S = vfSeg{}
		cs.Cfg.SegS2C = vfSeg{}
		cs.Cfg.Compress = rapid.SampledFrom([]int{0, 1}).Draw(rt, "lcompress")
		cs.Cfg.WinServer = false
		if cs.Cfg.Protocol >= 3 && rapid.Bool().Draw(rt, "slowacks") {
			f := &cs.Files[0]
			f.SrcSize, f.PrevSize, f.Relation = 25*vfMi, rapid.SampledFrom([]int64{22 * vfMi, 25 * vfMi, 30 * vfMi}).Draw(rt, "slowprev"), rapid.SampledFrom([]string{"prefix", "identical", "longer", "diverge"}).Draw(rt, "slowrel")
			f.Diverge = rapid.SampledFrom([]int64{20*vfMi + 1, 21 * vfMi}).Draw(rt, "slowdiv")
			cs.SlowAckMs, cs.Cfg.Timeout = 1800, 3
		}
	}
	return cs
}

func TestVF_C08(t *testing.T) {
	c := vfNewCollector("C08", "TestVF_C08")
	knownF2 := vfKnown("F2")
	vfCheck(t, c, vfGenC08, func(cs vfC08Case) string {
		if knownF2 {
			for _, f := range cs.Files {
				if f.SrcSize == 0 && cs.Cfg.Protocol >= 3 && f.Relation != "absent" && f.Relation != "empty" {
					c.exclude(1)
					return ""
				}
			}
		}
		nt := false
		msg := vfC08Run(cs, &nt)
		labels := vfPairLabels(cs.Cfg)
		for _, f := range cs.Files {
			labels = append(labels, "relation_"+f.Relation)
			if f.SrcSize >= 10*vfMi || f.PrevSize >= 10*vfMi {
				labels = append(labels, "spans_hash_block")
				if cs.SlowAckMs > 0 {
					labels = append(labels, "receiver_acknowledges_slowly")
				}
			}
			if f.SrcSize == 0 {
				labels = append(labels, "empty_source")
			}
		}
		c.eval(cs, nt, labels...)
		return msg
	})
}
