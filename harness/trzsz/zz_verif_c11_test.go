//go:build verif

// C11 — a transfer cannot hang: faults end it with an error on both sides in time, and no worker is left running.

package trzsz

import (
	"fmt"
	"os"
	"path/filepath"
	"regexp"
	"strings"
	"testing"
	"time"
)

type vfC11Case struct {
	Scen  vfScenario `json:"scenario"`
	Ev    vfEvent    `json:"event"`
	Fault string     `json:"fault"` // silence_c2s silence_s2c silence_both client_write_error dest_full source_shrink source_remove
	Plan  []vfYieldStep `json:"plan,omitempty"` // schedule perturbation of the client side (yield-instrumented build only)
}

type vfC11Res struct {
	fired    bool
	outcome  string
	leaked   int
	knownF9  bool
}

var vfGoroutineHdr = regexp.MustCompile(`^goroutine (\d+) \[`)

func vfGoroutineIDs(stacks []string) map[string]string {
	out := map[string]string{}
	for _, g := range stacks {
		if m := vfGoroutineHdr.FindStringSubmatch(g); m != nil {
			out[m[1]] = g
		}
	}
	return out
}

// vfIsF9 recognises the stacks of the recorded finding F9. Root: the encoder blocked in the buffer-probing WaitGroup
// ((*sendDataWriter).Write -> bufInitWG.Wait; with compression on that frame sits in a block goroutine of the zstd encoder).
// Dependents, which wait for the root and only count together with it: the sender stage waiting for the encoder's channel, and
// - with compression on - the encode stage waiting in zstdWriter.Close / Write for the stuck block goroutine.
func vfIsF9(stack string) bool { return vfIsF9Root(stack) || vfIsF9Dependent(stack) }

func vfIsF9Root(stack string) bool {
	return strings.Contains(stack, "(*sendDataWriter).Write") && strings.Contains(stack, "sync.(*WaitGroup).Wait")
}

func vfIsF9Dependent(stack string) bool {
	if strings.Contains(stack, "pipelineSendData.func") && strings.Contains(stack, "chan receive") {
		return true
	}
	if strings.Contains(stack, "klauspost/compress/zstd.(*Encoder).") && !strings.Contains(stack, "trzsz-go/trzsz.") {
		return true // the encoder's own block goroutine, waiting for the write goroutine that sits in the root stack
	}
	if strings.Contains(stack, "pipelineEncodeData.func") && strings.Contains(stack, "zstd.(*Encoder).") &&
		(strings.Contains(stack, "sync.(*WaitGroup).Wait") || strings.Contains(stack, "chan ")) {
		return true
	}
	return false
}

type vfErrWriter struct {
	inner interface{ Write([]byte) (int, error) }
	fail  func() bool
}

func (w *vfErrWriter) Write(p []byte) (int, error) {
	if w.fail() {
		return 0, fmt.Errorf("injected connection write error")
	}
	return w.inner.Write(p)
}

func vfC11Run(cs vfC11Case, res *vfC11Res) string {
	sc := cs.Scen
	e, err := vfScenSetup(sc)
	if err != nil {
		return "setup: " + err.Error()
	}
	defer e.cleanup()
	if cs.Fault == "dest_full" {
		// every destination file name already exists as a symlink to /dev/full (-y follows it): writes fail with ENOSPC
		for _, rel := range e.fileRel {
			p := filepath.Join(e.dest, rel)
			os.MkdirAll(filepath.Dir(p), 0755)
			os.Remove(p)
			if err := os.Symlink("/dev/full", p); err != nil {
				return "symlink: " + err.Error()
			}
		}
	}
	vfCurCase("TestVF_C11", cs)
	if len(cs.Plan) > 0 {
		vfInstallPlan(cs.Plan)
		defer vfClearPlan()
	}
	before := vfGoroutineIDs(vfTransferGoroutines())
	sess := vfNewSession(sc.Sess)
	defer sess.close()
	if strings.HasPrefix(cs.Fault, "silence_mid_") {
		sess.wire(strings.TrimPrefix(cs.Fault, "silence_mid_")).seg = vfSeg{Mode: 5}
	}
	writeFail := false
	fire := func() {
		switch cs.Fault {
		case "silence_c2s":
			sess.wire("c2s").setSilent(true)
		case "silence_s2c":
			sess.wire("s2c").setSilent(true)
		case "silence_both":
			sess.wire("c2s").setSilent(true)
			sess.wire("s2c").setSilent(true)
		case "silence_mid_c2s", "silence_mid_s2c":
			// the silence begins four bytes into the next line, and those four bytes arrive in one read with what was written
			// just before them (the link delivers what is written within 3 ms together)
			lk := sess.wire(strings.TrimPrefix(cs.Fault, "silence_mid_"))
			lk.mu.Lock()
			lk.silentIn = 4
			lk.mu.Unlock()
		case "tunnel_break":
			sess.breakTunnel()
		case "client_write_error":
			sess.c2s.mu.Lock()
			writeFail = true
			sess.c2s.mu.Unlock()
		case "source_shrink":
			for _, rel := range e.fileRel {
				os.Truncate(filepath.Join(e.src, rel), 10)
			}
		case "source_remove":
			for _, rel := range e.fileRel {
				os.Remove(filepath.Join(e.src, rel))
			}
		}
	}
	if cs.Fault == "client_write_error" {
		sess.c2sFail = func() bool {
			sess.c2s.mu.Lock()
			defer sess.c2s.mu.Unlock()
			return writeFail
		}
	}
	tk := vfArm(sess, sc.Cfg.Upload, cs.Ev, fire)
	if cs.Fault == "dest_full" {
		tk.mu.Lock()
		tk.fired, tk.firedAt = true, time.Now()
		tk.mu.Unlock()
	}
	run, err := vfStartTransfer(sess, sc.Cfg, e.paths, e.dest)
	if err != nil {
		return "cannot start: " + err.Error()
	}
	T := time.Duration(sc.Cfg.Timeout) * time.Second
	// the client is on its built-in 20 s until the CFG line has reached it
	limit := 3*T + 5*time.Second
	tk.mu.Lock()
	cfgSeen := tk.cfgSeen
	tk.mu.Unlock()
	_ = cfgSeen
	clientLimit := limit
	if cs.Ev.Dir == "s2c" && cs.Ev.K <= 1 && strings.HasPrefix(cs.Fault, "silence") {
		clientLimit = 3*20*time.Second + 5*time.Second
	}
	run.finish(clientLimit + 30*time.Second)
	tk.mu.Lock()
	fired, firedAt := tk.fired, tk.firedAt
	tk.mu.Unlock()
	res.fired = fired
	if !fired {
		if !run.serverSuccess() || !run.clientSuccess() {
			return "the fault point was never reached, yet the transfer failed: " + run.describe()
		}
		res.outcome = "success"
		return ""
	}
	sinceFault := run.started.Add(run.wall).Sub(firedAt)
	if !run.serverEnded || !run.clientIdle {
		return fmt.Sprintf("a side was still running %v after the fault (%s at %+v): %s", sinceFault, cs.Fault, cs.Ev, run.describe())
	}
	if sinceFault > clientLimit {
		return fmt.Sprintf("both sides returned only %v after the fault, bound %v (%s at %+v): %s", sinceFault, clientLimit, cs.Fault, cs.Ev, run.describe())
	}
	// a side returning success has a complete identical destination
	collide := sc.Pre == "collide" && !sc.Cfg.Overwrite
	destName := func(rel string) string {
		if !collide {
			return rel
		}
		parts := strings.SplitN(rel, string(filepath.Separator), 2)
		parts[0] += ".0"
		return filepath.Join(parts...)
	}
	serverOK, clientOK := run.serverSuccess(), run.clientSuccess()
	res.outcome = "error_both"
	if serverOK || clientOK {
		res.outcome = "success_one_or_both"
		if cs.Fault != "source_shrink" && cs.Fault != "source_remove" && cs.Fault != "dest_full" {
			same, _ := e.identicalFiles(destName)
			if same != len(e.fileRel) {
				return fmt.Sprintf("a side reported success after %s but only %d of %d files are complete and identical: %s", cs.Fault, same, len(e.fileRel), run.describe())
			}
		} else if cs.Fault == "dest_full" {
			return fmt.Sprintf("a side reported success although every destination write fails: %s", run.describe())
		}
	}
	// a side that failed locally and can still talk tells its peer why
	if cs.Fault == "dest_full" || cs.Fault == "source_shrink" || cs.Fault == "source_remove" {
		localIsClient := (cs.Fault == "dest_full") != sc.Cfg.Upload // receiver for dest_full, sender for source faults
		if !serverOK && !clientOK {
			if localIsClient && run.clientSaid != "fail" {
				return fmt.Sprintf("the client failed locally (%s) but sent no fail line: %s", cs.Fault, run.describe())
			}
			// "tells its peer why": the reason is the local failure. A side that only ran into its receive timeout did not notice
			// its own failure at all (and would wait for ever with a timeout of zero).
			if localIsClient && strings.Contains(strings.ToLower(run.clientText), "receive data timeout") {
				return fmt.Sprintf("the client failed locally (%s) but all it told its peer is a timeout: %s", cs.Fault, run.describe())
			}
			if !localIsClient && strings.Contains(strings.ToLower(run.serverMsg), "receive data timeout") {
				return fmt.Sprintf("the server failed locally (%s) but all it reports is a timeout: %s", cs.Fault, run.describe())
			}
			if !localIsClient {
				sawFail := false
				for _, m := range sess.wire("s2c").messages() {
					if m.Typ == "fail" || m.Typ == "FAIL" {
						sawFail = true
					}
				}
				if !sawFail {
					return fmt.Sprintf("the server failed locally (%s) but sent no fail line: %s", cs.Fault, run.describe())
				}
			}
		}
	}
	// afterwards no worker of the failed transfer is left running: remember the transfer goroutines that are new since
	// this case began; vfLeakSweep looks at them again once T+2 s have passed (without holding up the enumeration)
	suspects := map[string]string{}
	for id, st := range vfGoroutineIDs(vfTransferGoroutines()) {
		if _, old := before[id]; !old {
			suspects[id] = st
		}
	}
	if len(suspects) > 0 {
		vfLeakQueue = append(vfLeakQueue, vfLeakEntry{cs: cs, suspects: suspects, due: time.Now().Add(T + 2*time.Second), wait: T + 2*time.Second})
	}
	if sess.serverAlive() {
		return "the server process is still alive"
	}
	return ""
}

type vfLeakEntry struct {
	cs       vfC11Case
	suspects map[string]string
	due      time.Time
	wait     time.Duration
}

var vfLeakQueue []vfLeakEntry

// vfLeakSweep checks the queued cases whose grace period is over; final waits for all of them.
func vfLeakSweep(c *vfCollector, final bool) string {
	var rest []vfLeakEntry
	var live map[string]string
	for _, e := range vfLeakQueue {
		if !final && time.Now().Before(e.due) {
			rest = append(rest, e)
			continue
		}
		if d := time.Until(e.due); d > 0 {
			time.Sleep(d)
			live = nil
		}
		if live == nil {
			live = vfGoroutineIDs(vfTransferGoroutines())
		}
		var leaked []string
		for id := range e.suspects {
			if st, ok := live[id]; ok {
				leaked = append(leaked, st)
			}
		}
		if len(leaked) == 0 {
			continue
		}
		allKnown, root := true, false
		for _, st := range leaked {
			if !vfIsF9(st) {
				allKnown = false
			}
			if vfIsF9Root(st) {
				root = true
			}
		}
		allKnown = allKnown && root
		if allKnown && vfKnown("F9") {
			c.known("F9", e.cs, fmt.Sprintf("%d leaked goroutines match the F9 stacks (encoder blocked in bufInitWG.Wait, pipelineSendData waiting for it)", len(leaked)))
			continue
		}
		st := strings.Join(leaked, "\n\n")
		if len(st) > 3000 {
			st = st[:3000]
		}
		vfLeakQueue = rest
		c.violation("leak", e.cs, fmt.Sprintf("%d goroutine(s) of the failed transfer are still running %v after both sides returned (%s at %+v):\n%s", len(leaked), e.wait, e.cs.Fault, e.cs.Ev, st))
		return "goroutine leak"
	}
	vfLeakQueue = rest
	return ""
}

func vfC11Eval(c *vfCollector, cs vfC11Case, res *vfC11Res, msg string) {
	labels := []string{"scenario_" + cs.Scen.Name, "fault_" + cs.Fault, "outcome_" + res.outcome}
	if !res.fired {
		labels = append(labels, "event_never_reached")
	}
	c.eval(cs, res.fired && res.outcome != "success", labels...)
}

func TestVF_C11(t *testing.T) {
	c := vfNewCollector("C11", "TestVF_C11")
	defer vfFlushAll()
	for _, f := range vfCaseFilesFor(c.Test) {
		var cs vfC11Case
		if err := jsonUnmarshal(f.Case, &cs); err != nil {
			t.Errorf("bad case file %s: %v", f.Path, err)
			continue
		}
		var res vfC11Res
		msg := vfGuard(func() string { return vfC11Run(cs, &res) })
		vfC11Eval(c, cs, &res, msg)
		if msg != "" {
			c.violation("regress:"+filepath.Base(f.Path), cs, msg)
			t.Errorf("case file %s fails: %s", f.Path, msg)
		}
	}
	if vfReplayOnly() || t.Failed() {
		return
	}
	defer func() {
		if lm := vfLeakSweep(c, true); lm != "" {
			t.Errorf("%s", lm)
		}
	}()
	shard, shards := vfShard()
	stride := vfEnvInt("VERIF_C11_STRIDE", 1)
	seed := vfEnvInt("VERIF_SEED", 1)
	for _, sc := range append(vfScenarios(), vfTunnelScenarios()...) {
		sc.Cfg.Timeout = 2
		nc, ns, msg := vfDryRun(sc)
		if msg != "" {
			c.inconclusive("fault_free_dry_run_failed")
			c.note("a fault-free dry run failed three times, its scenario was skipped in this shard: " + msg)
			continue
		}
		faults := []string{"silence_c2s", "silence_s2c", "silence_both", "silence_mid_c2s", "silence_mid_s2c", "client_write_error", "source_shrink", "source_remove"}
		if sc.Sess.Tunnel {
			// over the tunnel: either direction of the TCP connection goes silent, or the connection breaks
			faults = []string{"silence_c2s", "silence_s2c", "silence_both", "tunnel_break"}
		}
		// source faults need files that outlast the sender's read-ahead (100 x 32 KiB), otherwise everything has been read
		// before the first message passes: those cases use files 40 times larger
		bigSc := sc
		bigSc.Size *= 40
		bnc, bns, bmsg := 0, 0, ""
		if !sc.Sess.Tunnel { // the tunnel scenarios have no source faults
			bnc, bns, bmsg = vfDryRun(bigSc)
		}
		if bmsg != "" {
			c.inconclusive("fault_free_dry_run_failed")
			c.note("a fault-free dry run failed three times, its scenario was skipped in this shard: " + bmsg)
			continue
		}
		for _, fault := range faults {
			useSc, unc, uns := sc, nc, ns
			if strings.HasPrefix(fault, "source_") {
				useSc, unc, uns = bigSc, bnc, bns
			}
			for _, dir := range []string{"c2s", "s2c"} {
				n := unc
				if dir == "s2c" {
					n = uns
				}
				for k := 1; k < n; k++ { // k = 0 is the ACT line / the trigger line: faults start after the handshake has begun
					if dir == "s2c" && k == 1 && stride > 1 {
						continue // losing the CFG line leaves the client on its built-in 20 s: thorough tier only
					}
					if strings.HasPrefix(fault, "source_") && k > 40 && k%5 != 0 {
						continue // a long data phase: every fifth message is enough
					}
					for _, before := range []bool{true, false} {
						h := vfPointHash(useSc.Name, fault, dir, k, before)
						if int(h%uint64(shards)) != shard || (int(h/uint64(shards)%1000003)+seed)%stride != 0 {
							continue
						}
						cs := vfC11Case{Scen: useSc, Ev: vfEvent{Dir: dir, K: k, Before: before}, Fault: fault}
						if !vfC11One(t, c, cs) {
							return
						}
					}
				}
			}
		}
		// a long compressed stream whose receiver fails at once: the decoder has run far ahead of the stage that failed
		if sc.Cfg.Overwrite && !sc.Cfg.Upload {
			big := sc
			big.Name += "+big-compressible"
			big.Files, big.Size, big.Kind = 2, 8<<20, vfKindText
			h := vfPointHash(big.Name, "dest_full")
			if int(h%uint64(shards)) == shard {
				if !vfC11One(t, c, vfC11Case{Scen: big, Ev: vfEvent{Dir: "c2s", K: -1}, Fault: "dest_full"}) {
					return
				}
			}
		}
		// destination write errors need -y (the symlink is followed); one case per scenario
		if sc.Cfg.Overwrite {
			h := vfPointHash(sc.Name, "dest_full")
			if int(h%uint64(shards)) == shard {
				if !vfC11One(t, c, vfC11Case{Scen: sc, Ev: vfEvent{Dir: "c2s", K: -1}, Fault: "dest_full"}) {
					return
				}
			}
		}
	}
}

func vfC11One(t *testing.T, c *vfCollector, cs vfC11Case) bool {
	var res vfC11Res
	m := vfGuard(func() string { return vfC11Run(cs, &res) })
	if m != "" && (strings.Contains(m, "still running") || strings.Contains(m, "returned only")) {
		again := 0
		for r := 0; r < 2; r++ {
			var res2 vfC11Res
			if m2 := vfGuard(func() string { return vfC11Run(cs, &res2) }); m2 != "" {
				again++
			}
		}
		if again == 0 {
			c.inconclusive("timing_not_reproduced")
			m = ""
		}
	}
	vfC11Eval(c, cs, &res, m)
	if m != "" {
		c.violation("enumerated", cs, m)
		t.Errorf("%s", m)
		return false
	}
	if lm := vfLeakSweep(c, false); lm != "" {
		t.Errorf("%s", lm)
		return false
	}
	return true
}


// vfPipelineSites lists the yield sites of the pipeline stages, those on lines with channel operations, selects,
// cancellation or waits four times (weighted choice).
func vfPipelineSites() []string {
	re := regexp.MustCompile(`vfYield\("([^"]+)"\); (.*)`)
	var out []string
	for _, f := range []string{"pipeline.go", "transfer.go", "buffer.go", "append.go"} {
		b, err := os.ReadFile(f)
		if err != nil {
			continue
		}
		for _, m := range re.FindAllSubmatch(b, -1) {
			site, rest := string(m[1]), string(m[2])
			w := 1
			for _, kw := range []string{"<-", "select", "cancel", "ctx.", "Wait()", "Done()", "close(", "bufInit", "recvCheck", "checkStop"} {
				if strings.Contains(rest, kw) {
					w = 4
				}
			}
			for i := 0; i < w; i++ {
				out = append(out, site)
			}
		}
	}
	return out
}

// TestVF_C11Perturbed: a sample of the fault points again, with a plan of 1-4 delays (Gosched .. 20 ms) at weighted sites of
// the pipeline stages of the in-process client (yield-instrumented build). The plan is derived from the point's hash and
// stored in the case, so a replay is exact.
func TestVF_C11Perturbed(t *testing.T) {
	c := vfNewCollector("C11", "TestVF_C11Perturbed")
	defer vfFlushAll()
	for _, f := range vfCaseFilesFor(c.Test) {
		var cs vfC11Case
		if err := jsonUnmarshal(f.Case, &cs); err != nil {
			t.Errorf("bad case file %s: %v", f.Path, err)
			continue
		}
		var res vfC11Res
		msg := vfGuard(func() string { return vfC11Run(cs, &res) })
		vfC11Eval(c, cs, &res, msg)
		if msg != "" {
			c.violation("regress:"+filepath.Base(f.Path), cs, msg)
			t.Errorf("case file %s fails: %s", f.Path, msg)
		} else if lm := vfLeakSweep(c, true); lm != "" { // the sweep records the stacks itself
			t.Errorf("case file %s fails: %s", f.Path, lm)
		}
	}
	if vfReplayOnly() || t.Failed() {
		return
	}
	sites := vfPipelineSites()
	if len(sites) == 0 {
		c.note("sources are not yield-instrumented: the perturbed variant did not run")
		c.eval(map[string]any{"perturbed": "not instrumented"}, false, "not_instrumented")
		return
	}
	defer func() {
		if lm := vfLeakSweep(c, true); lm != "" {
			t.Errorf("%s", lm)
		}
	}()
	shard, shards := vfShard()
	stride := vfEnvInt("VERIF_C11P_STRIDE", 1)
	seed := vfEnvInt("VERIF_SEED", 1)
	delays := []int{-1, -10, 100, 1000, 5000, 20000}
	for _, sc := range vfScenarios() {
		if sc.Cfg.Protocol < 2 {
			continue
		}
		sc.Cfg.Timeout = 2
		nc, ns, msg := vfDryRun(sc)
		if msg != "" {
			c.inconclusive("fault_free_dry_run_failed")
			c.note("a fault-free dry run failed three times, its scenario was skipped in this shard: " + msg)
			continue
		}
		if sc.Cfg.Overwrite && !sc.Cfg.Upload {
			// a long compressed stream whose save stage stalls (a slow disk) and then fails: the stages in front of it - the
			// decoder with the streams it opened - have run as far ahead as their buffers allow when the failure comes
			saveSites := vfSitesInFunc("pipeline.go", "func (t *trzszTransfer) pipelineSaveData(")
			big := sc
			big.Name += "+big-compressible"
			big.Files, big.Size, big.Kind = 2, 12<<20, vfKindText
			for i, site := range saveSites {
				if i > 5 {
					break
				}
				h := vfPointHash("perturbed", big.Name, "dest_full", site)
				if int(h%uint64(shards)) != shard {
					continue
				}
				cs := vfC11Case{Scen: big, Ev: vfEvent{Dir: "c2s", K: -1}, Fault: "dest_full", Plan: []vfYieldStep{{Site: site, Hit: 0, Delay: 1200000}}}
				c.label("perturbed_stalled_save")
				if !vfC11One(t, c, cs) {
					return
				}
			}
		}
		for _, fault := range []string{"silence_c2s", "silence_s2c", "client_write_error"} {
			for _, dir := range []string{"c2s", "s2c"} {
				n := nc
				if dir == "s2c" {
					n = ns
				}
				for k := 2; k < n; k++ {
					h := vfPointHash("perturbed", sc.Name, fault, dir, k)
					if int(h%uint64(shards)) != shard || (int(h/uint64(shards)%1000003)+seed)%stride != 0 {
						continue
					}
					x := h | 1
					next := func() uint64 { x ^= x << 13; x ^= x >> 7; x ^= x << 17; return x }
					var plan []vfYieldStep
					for i := 0; i < 1+int(next()%4); i++ {
						plan = append(plan, vfYieldStep{Site: sites[next()%uint64(len(sites))], Hit: int(next() % 6), Delay: delays[next()%uint64(len(delays))]})
					}
					cs := vfC11Case{Scen: sc, Ev: vfEvent{Dir: dir, K: k, Before: next()%2 == 0}, Fault: fault, Plan: plan}
					c.label("perturbed")
					if !vfC11One(t, c, cs) {
						return
					}
				}
			}
		}
	}
}
