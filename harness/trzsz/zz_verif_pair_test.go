//go:build verif

// E2 pair engine: the real client-side and server-side transfer code (handshake, sendFiles / recvFiles, exit exchange)
// joined in-process by two vfLinks. No filter, no binaries: milliseconds per transfer.

package trzsz

import (
	"encoding/json"
	"fmt"
	"io"
	"os"
	"strings"
	"sync"
	"time"
)

type vfPairCfg struct {
	Upload    bool  `json:"upload"`
	Binary    bool  `json:"binary,omitempty"`
	Escape    bool  `json:"escape,omitempty"`
	Compress  int   `json:"compress,omitempty"` // 0 auto, 1 yes, 2 no
	Bufsize   int64 `json:"bufsize,omitempty"`  // 0 = default 10M
	Overwrite bool  `json:"overwrite,omitempty"`
	Directory bool  `json:"directory,omitempty"`
	Protocol  int   `json:"protocol"` // what the handshake ends up with: 0/1 (absent), 2, 3, 4
	Timeout   int   `json:"timeout,omitempty"`
	WinServer bool  `json:"winserver,omitempty"` // Windows server: "!\n" framing in both directions
	TmuxJunk  bool  `json:"tmuxjunk,omitempty"`  // server believes it runs in tmux normal mode (junk-tolerant reads, no binary upload)
	Progress  bool  `json:"progress,omitempty"`
	Fork      bool  `json:"fork,omitempty"` // -f: transfer in the background (session engine with a tunnel only)
	SegC2S    vfSeg `json:"seg_c2s"`
	SegS2C    vfSeg `json:"seg_s2c"`
}

type vfPairRun struct {
	cfg         vfPairCfg
	client      *trzszTransfer
	server      *trzszTransfer
	c2s, s2c    *vfLink
	clientErr   error
	serverErr   error
	clientNames []string // names the sender/receiver on the client side reported
	serverNames []string
	clientMsg   string // the message the client put into EXIT (what the user is shown)
	serverMsg   string // the EXIT message as received by the server
	finalBinary bool
	hung        bool
	progressOut *vfCapture
	wall        time.Duration
	hostile     func(files []*sourceFile) []*sourceFile // C09: poison the sender's list
	propagate   bool                                    // stop the peer when one role returns an error
}


func vfCurCase(test string, cs any) {
	if p := os.Getenv("VERIF_CURCASE"); p != "" {
		b, _ := json.Marshal(map[string]any{"test": test, "case": cs})
		_ = os.WriteFile(p, b, 0644)
	}
}

// vfServerRecv mirrors recvFiles() of trz.go without the terminal handling (serverExit / serverError).
func (r *vfPairRun) serverRecv(dest string) error {
	t := r.server
	action, err := t.recvAction()
	if err != nil {
		return err
	}
	if !action.Confirm {
		return fmt.Errorf("client did not confirm")
	}
	args := r.baseArgs()
	if r.cfg.TmuxJunk {
		args.Binary = false // TrzMain: binary upload in tmux is not supported
	}
	if args.Binary && !action.SupportBinary {
		args.Binary = false
	}
	if args.Directory && !action.SupportDirectory {
		return simpleTrzszError("The client doesn't support transfer directory")
	}
	r.forceProtocol(action)
	tm := tmuxModeType(noTmuxMode)
	if r.cfg.TmuxJunk {
		tm = tmuxNormalMode
	}
	if err := t.sendConfig(args, action, getEscapeChars(args.Escape), tm, -1); err != nil {
		return err
	}
	names, err := t.recvFiles(dest, nil)
	if err != nil {
		return err
	}
	r.serverNames = names
	msg, err := t.recvExit()
	if err != nil {
		return err
	}
	r.serverMsg = msg
	return nil
}

// vfServerSend mirrors sendFiles() of tsz.go.
func (r *vfPairRun) serverSend(paths []string) error {
	t := r.server
	args := r.baseArgs()
	files, err := checkPathsReadable(paths, args.Directory)
	if err != nil {
		return err
	}
	if args.Overwrite {
		if err := checkDuplicateNames(files); err != nil {
			return err
		}
	}
	if r.hostile != nil {
		files = r.hostile(files)
	}
	action, err := t.recvAction()
	if err != nil {
		return err
	}
	if !action.Confirm {
		return fmt.Errorf("client did not confirm")
	}
	if args.Binary && !action.SupportBinary {
		args.Binary = false
	}
	if args.Directory && !action.SupportDirectory {
		return simpleTrzszError("The client doesn't support transfer directory")
	}
	r.forceProtocol(action)
	tm := tmuxModeType(noTmuxMode)
	if r.cfg.TmuxJunk {
		tm = tmuxNormalMode
	}
	var escapeChars [][]unicode
	if err := t.sendConfig(args, action, escapeChars, tm, -1); err != nil {
		return err
	}
	names, err := t.sendFiles(files, nil)
	if err != nil {
		return err
	}
	r.serverNames = names
	msg, err := t.recvExit()
	if err != nil {
		return err
	}
	r.serverMsg = msg
	return nil
}

func (r *vfPairRun) forceProtocol(action *transferAction) {
	// negotiate down the way an older client or a relay would: the real code on both ends then runs that protocol
	if r.cfg.Protocol < action.Protocol {
		action.Protocol = r.cfg.Protocol
		if r.cfg.Protocol <= 1 {
			action.Protocol = 0 // old clients do not announce a protocol at all
		}
	}
}

func (r *vfPairRun) baseArgs() *baseArgs {
	a := &baseArgs{Quiet: !r.cfg.Progress, Overwrite: r.cfg.Overwrite, Binary: r.cfg.Binary, Escape: r.cfg.Escape,
		Directory: r.cfg.Directory, Timeout: r.cfg.Timeout, Compress: compressType(r.cfg.Compress)}
	a.Bufsize.Size = r.cfg.Bufsize
	if a.Bufsize.Size == 0 {
		a.Bufsize.Size = 10 * 1024 * 1024
	}
	if a.Timeout == 0 {
		a.Timeout = 20
	}
	return a
}

func (r *vfPairRun) clientProgress(config *transferConfig) progressCallback {
	if config.Quiet {
		// exactly what TrzszFilter hands over in quiet mode: its progress pointer, which is nil - an interface holding a nil
		// *textProgressBar, whose methods are still called
		return (*textProgressBar)(nil)
	}
	r.progressOut = &vfCapture{}
	return newTextProgressBar(r.progressOut, 100, config.TmuxPaneColumns, "", "")
}

// clientUpload mirrors TrzszFilter.uploadFiles.
func (r *vfPairRun) clientUpload(paths []string) error {
	t := r.client
	files, err := checkPathsReadable(paths, r.cfg.Directory)
	if err != nil {
		return err
	}
	if err := t.sendAction(true, &trzszVersion{1, 1, 8}, r.cfg.WinServer); err != nil {
		return err
	}
	config, err := t.recvConfig()
	if err != nil {
		return err
	}
	r.finalBinary = config.Binary
	if config.Overwrite {
		if err := checkDuplicateNames(files); err != nil {
			return err
		}
	}
	if r.hostile != nil {
		files = r.hostile(files)
	}
	var progress progressCallback
	if p := r.clientProgress(config); p != nil {
		progress = p
	}
	names, err := t.sendFiles(files, progress)
	if err != nil {
		return err
	}
	r.clientNames = names
	r.clientMsg = formatSavedFiles(names, "")
	return t.clientExit(r.clientMsg)
}

// clientDownload mirrors TrzszFilter.downloadFiles.
func (r *vfPairRun) clientDownload(dest string) error {
	t := r.client
	if err := checkPathWritable(dest); err != nil {
		return err
	}
	if err := t.sendAction(true, &trzszVersion{1, 1, 8}, r.cfg.WinServer); err != nil {
		return err
	}
	config, err := t.recvConfig()
	if err != nil {
		return err
	}
	r.finalBinary = config.Binary
	var progress progressCallback
	if p := r.clientProgress(config); p != nil {
		progress = p
	}
	names, err := t.recvFiles(dest, progress)
	if err != nil {
		return err
	}
	r.clientNames = names
	r.clientMsg = formatSavedFiles(names, dest)
	return t.clientExit(r.clientMsg)
}

// vfNewPair wires two transfers together. The caller may adjust links (faults, events) before run().
func vfNewPair(cfg vfPairCfg) *vfPairRun {
	r := &vfPairRun{cfg: cfg}
	r.c2s = newVfLink("c2s", nil)
	r.s2c = newVfLink("s2c", nil)
	r.client = newTransfer(r.c2s, nil, cfg.WinServer, nil)
	r.server = newTransfer(r.s2c, nil, false, nil)
	r.c2s.out = func(b []byte) { r.server.addReceivedData(append([]byte(nil), b...), false) }
	r.s2c.out = func(b []byte) { r.client.addReceivedData(append([]byte(nil), b...), false) }
	r.c2s.seg = cfg.SegC2S
	r.s2c.seg = cfg.SegS2C
	if cfg.WinServer {
		r.server.windowsProtocol = true // a Windows server reads its input with the Windows line reader
	}
	// #DATA:<n> + raw block only happens in binary mode; upload binary needs the client to support it and no tmux
	bin := cfg.Binary && !cfg.WinServer
	if cfg.Upload && cfg.TmuxJunk {
		bin = false
	}
	r.c2s.binary = bin && cfg.Upload
	r.s2c.binary = bin && !cfg.Upload
	return r
}

// run executes the transfer; paths are the sources, dest the destination directory. limit is the harness watchdog.
func (r *vfPairRun) run(paths []string, dest string, limit time.Duration) {
	begin := time.Now()
	var wg sync.WaitGroup
	wg.Add(2)
	// The pair engine has no clientError / serverError (they belong to the filter and the mains): when one role gives up,
	// the harness plays the fail line and stops the peer, so that an expected refusal does not cost a timeout.
	go func() {
		defer wg.Done()
		if r.cfg.Upload {
			r.clientErr = r.clientUpload(paths)
		} else {
			r.clientErr = r.clientDownload(dest)
		}
		if r.clientErr != nil && r.propagate {
			time.Sleep(20 * time.Millisecond)
			r.server.stopTransferringFiles(false)
		}
	}()
	go func() {
		defer wg.Done()
		if r.cfg.Upload {
			r.serverErr = r.serverRecv(dest)
		} else {
			r.serverErr = r.serverSend(paths)
		}
		if r.serverErr != nil && r.propagate {
			time.Sleep(20 * time.Millisecond)
			r.client.stopTransferringFiles(false)
		}
	}()
	done := make(chan struct{})
	go func() { wg.Wait(); close(done) }()
	select {
	case <-done:
	case <-time.After(limit):
		r.hung = true
		r.client.stopTransferringFiles(false)
		r.server.stopTransferringFiles(false)
		select {
		case <-done:
		case <-time.After(10 * time.Second):
		}
	}
	r.wall = time.Since(begin)
}

func (r *vfPairRun) describe() string {
	return fmt.Sprintf("client err=%v, server err=%v, hung=%v, wall=%v", r.clientErr, r.serverErr, r.hung, r.wall)
}

// vfParseSaved parses "Saved N file(s)/directories [to P]\r\n- name..." into the names.
func vfParseSaved(msg string) (n int, names []string, ok bool) {
	lines := strings.Split(msg, "\r\n")
	if len(lines) == 0 || !strings.HasPrefix(lines[0], "Saved ") {
		return 0, nil, false
	}
	fmt.Sscanf(lines[0], "Saved %d", &n)
	for _, l := range lines[1:] {
		if !strings.HasPrefix(l, "- ") {
			return n, names, false
		}
		names = append(names, l[2:])
	}
	return n, names, true
}

var _ = io.Discard
