//go:build verif

// C15 — a directory sent as one archive stream is reconstructed exactly.

package trzsz

import (
	"fmt"
	"io"
	"os"
	"path/filepath"
	"strings"
	"runtime/debug"
	"testing"

	"pgregory.net/rapid"
)

type vfC15Case struct {
	Tree    vfTree `json:"tree"`    // one top-level directory
	ReadSz  []int  `json:"readsz"`  // producer read sizes, cycled
	WriteSz []int  `json:"writesz"` // consumer write sizes, cycled (independent of the reads)
	Cuts    []int  `json:"cuts"`    // explicit cut positions of the stream on the consumer side (used when WriteSz is empty)
	Shrink  int    `json:"shrink"`  // >=0: index (among regular files with size>0) of a file truncated between scan and read
	ShrinkTo int64 `json:"shrink_to"`
	// ShrinkMid > 0: the truncation happens while the stream is being produced, once (ShrinkMid-1) percent of that file's payload
	// have been delivered - the file is open and partly read by then (a slow peer keeps the producer waiting in the middle of an entry)
	ShrinkMid int `json:"shrink_mid,omitempty"`
	Grow    int    `json:"grow"`    // >=0: index of a file extended between scan and read
}

type vfC15Res struct {
	streamLen   int
	headerCut   bool
	boundaryCut bool
	entries     int
	shrunkOpen  bool
}

func vfArchiveProduce(cs *vfC15Case, src string) (stream []byte, reader fileReader, srcFile *sourceFile, msg string) {
	root := filepath.Join(src, cs.Tree.Files[0].Rel[0])
	files, err := checkPathsReadable([]string{root}, true)
	if err != nil {
		return nil, nil, nil, "scanner rejected the tree: " + err.Error()
	}
	t := newTransfer(io.Discard, nil, false, nil)
	t.transferConfig.Protocol = kProtocolVersion4
	t.transferConfig.Directory = true
	arch := t.archiveSourceFiles(files)
	if len(arch) != 1 {
		return nil, nil, nil, fmt.Sprintf("archiveSourceFiles returned %d top-level entries for one path", len(arch))
	}
	srcFile = arch[0]
	if len(srcFile.SubFiles) == 0 {
		return nil, nil, srcFile, "" // empty directory: not sent as an archive
	}
	reader, err = t.newArchiveReader(srcFile)
	if err != nil {
		return nil, nil, nil, "newArchiveReader: " + err.Error()
	}
	return nil, reader, srcFile, ""
}

func vfC15Run(cs vfC15Case, res *vfC15Res) string {
	base, err := os.MkdirTemp("", "vfc15")
	if err != nil {
		return "mkdtemp: " + err.Error()
	}
	defer os.RemoveAll(base)
	src := filepath.Join(base, "src")
	dst := filepath.Join(base, "dst")
	os.MkdirAll(src, 0755)
	os.MkdirAll(dst, 0755)
	if err := cs.Tree.materialize(src); err != nil {
		return "" // name not representable on this file system: out of domain
	}
	_, reader, srcFile, msg := vfArchiveProduce(&cs, src)
	if msg != "" {
		return msg
	}
	if reader == nil {
		return ""
	}
	defer reader.Close()
	res.entries = len(srcFile.SubFiles)
	// source files that change length between scan and read
	var regular []string
	for _, f := range cs.Tree.Files {
		if !f.IsDir && f.Size > 0 {
			regular = append(regular, filepath.Join(append([]string{src}, f.Rel...)...))
		}
	}
	shrunk := false
	shrinkAt, shrinkStart, shrinkEnd := -1, -1, -1 // stream offsets: do the truncation once this much has been produced / end of that file's payload
	var doShrink func() string
	if cs.Shrink >= 0 && len(regular) > 0 {
		p := regular[cs.Shrink%len(regular)]
		st, _ := os.Stat(p)
		to := cs.ShrinkTo
		if to >= st.Size() {
			to = st.Size() - 1
		}
		doShrink = func() string {
			if err := os.Truncate(p, to); err != nil {
				return "truncate: " + err.Error()
			}
			return ""
		}
		if cs.ShrinkMid > 0 {
			off := 0
			for _, sf := range srcFile.SubFiles {
				off += len(sf.Header) + 1
				if !sf.IsDir {
					if sf.AbsPath == p {
						shrinkAt = off + int(int64(cs.ShrinkMid-1)*sf.Size/100)
						shrinkStart, shrinkEnd = off, off+int(sf.Size)
						break
					}
					off += int(sf.Size)
				}
			}
		}
		if shrinkAt < 0 {
			if m := doShrink(); m != "" {
				return m
			}
			shrunk = true
		}
	}
	if cs.Grow >= 0 && len(regular) > 0 {
		p := regular[cs.Grow%len(regular)]
		f, err := os.OpenFile(p, os.O_APPEND|os.O_WRONLY, 0644)
		if err == nil {
			f.Write([]byte("EXTRA BYTES APPENDED AFTER THE SCAN"))
			f.Close()
		}
	}
	// produce
	gc := debug.SetGCPercent(-1) // a dropped *os.File must stay visible in the descriptor census
	defer debug.SetGCPercent(gc)
	fdBase := vfCountFDs()
	var stream []byte
	var readErr error
	maxFD := 0
	for k := 0; ; k++ {
		sz := 32 * 1024
		if len(cs.ReadSz) > 0 {
			sz = cs.ReadSz[k%len(cs.ReadSz)]
		}
		if shrinkAt >= 0 && len(stream) >= shrinkEnd {
			shrinkAt = -1 // the read sizes carried the producer past the whole file in one go: nothing left to shrink under it
		}
		if shrinkAt >= 0 && len(stream) >= shrinkAt {
			if m := doShrink(); m != "" {
				return m
			}
			// part of that file is still to be delivered: an error is due
			shrunk = true
			res.shrunkOpen = shrunk && len(stream) > shrinkStart // part of the file had been delivered already
			shrinkAt = -1
		}
		buf := make([]byte, sz)
		n, err := reader.Read(buf)
		stream = append(stream, buf[:n]...)
		if k%16 == 0 {
			if c := vfCountFDs() - fdBase; c > maxFD {
				maxFD = c
			}
		}
		if err == io.EOF {
			break
		}
		if err != nil {
			readErr = err
			break
		}
		if int64(len(stream)) > reader.getSize()+1024 {
			break
		}
	}
	reader.Close()
	if maxFD > 3 {
		return fmt.Sprintf("producer held %d descriptors above the baseline while reading %d entries", maxFD, res.entries)
	}
	if shrunk {
		if readErr == nil {
			return fmt.Sprintf("a source file shrank between scan and read but the archive reader reported no error (%d bytes produced, %d announced)",
				len(stream), reader.getSize())
		}
	} else {
		if readErr != nil {
			return "archive reader error: " + readErr.Error()
		}
		if int64(len(stream)) != reader.getSize() {
			return fmt.Sprintf("announced size %d but %d bytes were produced", reader.getSize(), len(stream))
		}
	}
	res.streamLen = len(stream)
	// consume: the receiver learns the top-level entry through its JSON form, as over the wire
	js, err := srcFile.marshalSourceFile()
	if err != nil {
		return "marshalSourceFile: " + err.Error()
	}
	peer, err := unmarshalSourceFile(js)
	if err != nil {
		return "unmarshalSourceFile: " + err.Error()
	}
	t2 := newTransfer(io.Discard, nil, false, nil)
	t2.transferConfig.Protocol = kProtocolVersion4
	t2.transferConfig.Directory = true
	w, localName, err := t2.createDirOrFile(dst, peer, false)
	if err != nil {
		return "createDirOrFile: " + err.Error()
	}
	if w == nil {
		return "createDirOrFile returned no writer for an archive entry"
	}
	// entry boundaries of the stream, for the non-trivial rule
	bounds := map[int]bool{}
	hdr := map[int]bool{}
	{
		off := 0
		for _, sf := range srcFile.SubFiles {
			for i := 1; i <= len(sf.Header); i++ {
				hdr[off+i] = true
			}
			off += len(sf.Header) + 1
			bounds[off] = true
			if !sf.IsDir {
				off += int(sf.Size)
				bounds[off] = true
			}
		}
	}
	var chunks [][]byte
	if len(cs.WriteSz) > 0 {
		pos := 0
		for k := 0; pos < len(stream); k++ {
			sz := cs.WriteSz[k%len(cs.WriteSz)]
			if sz > len(stream)-pos {
				sz = len(stream) - pos
			}
			chunks = append(chunks, stream[pos:pos+sz])
			pos += sz
		}
	} else {
		chunks = vfChunks(stream, cs.Cuts)
	}
	off := 0
	fdBase = vfCountFDs()
	maxFD = 0
	var werr error
	var scratch []byte
	for i, ch := range chunks {
		if i > 0 {
			if hdr[off] {
				res.headerCut = true
			}
			if bounds[off] {
				res.boundaryCut = true
			}
		}
		// the caller owns the slice again once Write has returned (io.Writer: "Write must not retain p"): every piece is handed
		// over in one reused scratch buffer, the way a copy loop does, and the buffer is overwritten afterwards
		if werr = vfWriteReused(w, ch, &scratch); werr != nil {
			break
		}
		off += len(ch)
		if i%8 == 0 || len(chunks) < 64 {
			if c := vfCountFDs() - fdBase; c > maxFD {
				maxFD = c
			}
		}
	}
	if c := vfCountFDs() - fdBase; c > maxFD {
		maxFD = c
	}
	w.Close()
	// nothing outside the source tree may ever be created
	srcSnap, _ := vfSnapshotOne(filepath.Join(src, cs.Tree.Files[0].Rel[0]))
	dstSnap, err := vfSnapshotOne(filepath.Join(dst, localName))
	if err != nil {
		return "destination: " + err.Error()
	}
	for k := range dstSnap {
		if _, ok := srcSnap[k]; !ok {
			return fmt.Sprintf("consumer created %q which is not in the source tree", k)
		}
	}
	if shrunk {
		return "" // the stream ended early by design; only the invented-path check applies
	}
	if werr != nil {
		return "archive writer error: " + werr.Error()
	}
	if maxFD > 3 {
		return fmt.Sprintf("consumer held %d descriptors above the baseline while writing %d entries (descriptors grow with the entry count)", maxFD, res.entries)
	}
	if cs.Grow >= 0 {
		// an extended file is read up to its scanned length: compare against the scanned tree
		if err := cs.Tree.materialize(src); err != nil {
			return ""
		}
	}
	if m := vfCompareSubtree(src, cs.Tree.Files[0].Rel[0], dst, localName); m != "" {
		return m
	}
	return ""
}

func vfGenC15(rt *rapid.T) vfC15Case {
	var cs vfC15Case
	big := rapid.IntRange(0, 19).Draw(rt, "bigtree") == 0
	top := vfGenFsName(rt, "top")
	deep := !big && rapid.IntRange(0, 11).Draw(rt, "deeptree") == 0
	if deep {
		// a long chain of directories that all have the same name, or a few very long repetitive names: the relative path in an
		// entry header then is long and compresses extremely well
		name := rapid.SampledFrom([]string{"node_modules", "数据目录", "d", strings.Repeat("ab", 90), strings.Repeat("x", 200)}).Draw(rt, "deepname")
		depth := rapid.IntRange(20, 32).Draw(rt, "deepdepth")
		if len(name) > 100 {
			depth = rapid.IntRange(2, 6).Draw(rt, "deepdepth_long")
		} else if len(name) == 1 {
			depth = rapid.IntRange(60, 90).Draw(rt, "deepdepth_short")
		}
		rel := []string{top}
		cs.Tree.Files = append(cs.Tree.Files, vfFile{Rel: []string{top}, IsDir: true})
		for i := 0; i < depth; i++ {
			rel = append(append([]string(nil), rel...), name)
			cs.Tree.Files = append(cs.Tree.Files, vfFile{Rel: rel, IsDir: true})
			if i%7 == 3 || i == depth-1 {
				cs.Tree.Files = append(cs.Tree.Files, vfFile{Rel: append(append([]string(nil), rel...), "f.txt"), Size: int64(10 + i), Kind: vfKindText, Seed: uint64(i + 1)})
			}
		}
	} else if big {
		// many entries: descriptor use must not grow with the entry count
		n := rapid.IntRange(120, 400).Draw(rt, "nentries")
		cs.Tree.Files = append(cs.Tree.Files, vfFile{Rel: []string{top}, IsDir: true})
		for i := 0; i < n; i++ {
			rel := []string{top, fmt.Sprintf("f%04d", i)}
			if i%37 == 5 {
				cs.Tree.Files = append(cs.Tree.Files, vfFile{Rel: rel, IsDir: true})
				continue
			}
			cs.Tree.Files = append(cs.Tree.Files, vfFile{Rel: rel, Size: int64(rapid.IntRange(0, 40).Draw(rt, "sz")), Kind: vfKindText, Seed: uint64(i + 1)})
		}
	} else {
		vfGenDir(rt, &cs.Tree.Files, []string{top}, 1, rapid.IntRange(1, 4).Draw(rt, "depth"), rapid.IntRange(1, 5).Draw(rt, "fan"),
			rapid.IntRange(0, 5).Draw(rt, "allowbig") == 0)
	}
	cs.ReadSz = rapid.SliceOfN(rapid.SampledFrom([]int{1, 2, 3, 7, 64, 100, 1000, 4096, 32768, 65536}), 1, 4).Draw(rt, "readsz")
	if rapid.Bool().Draw(rt, "bysize") {
		cs.WriteSz = rapid.SliceOfN(rapid.SampledFrom([]int{1, 2, 3, 5, 13, 64, 100, 1000, 4096, 32768, 1 << 20}), 1, 4).Draw(rt, "writesz")
	} else {
		n := rapid.IntRange(0, 12).Draw(rt, "ncuts")
		set := map[int]bool{}
		for i := 0; i < n; i++ {
			set[rapid.IntRange(1, 3000).Draw(rt, "cut")] = true
		}
		for i := 1; i <= 3000; i++ {
			if set[i] {
				cs.Cuts = append(cs.Cuts, i)
			}
		}
	}
	if big && len(cs.WriteSz) > 0 && cs.WriteSz[0] < 5 {
		cs.WriteSz = []int{64, 7}
	}
	if big {
		cs.ReadSz = []int{4096}
	}
	cs.Shrink, cs.Grow = -1, -1
	switch rapid.IntRange(0, 9).Draw(rt, "mutate") {
	case 0:
		cs.Shrink = rapid.IntRange(0, 50).Draw(rt, "shrinkidx")
		cs.ShrinkTo = rapid.Int64Range(0, 2000).Draw(rt, "shrinkto")
		if rapid.Bool().Draw(rt, "shrinkmid") {
			cs.ShrinkMid = rapid.IntRange(1, 101).Draw(rt, "shrinkmidpct")
		}
	case 1:
		cs.Grow = rapid.IntRange(0, 50).Draw(rt, "growidx")
	}
	return cs
}

func TestVF_C15(t *testing.T) {
	c := vfNewCollector("C15", "TestVF_C15")
	vfCheck(t, c, vfGenC15, func(cs vfC15Case) string {
		var res vfC15Res
		msg := vfC15Run(cs, &res)
		var labels []string
		if res.entries >= 100 {
			labels = append(labels, "entries>=100")
		}
		for _, f := range cs.Tree.Files {
			if len(f.Rel) > 15 || (len(f.Rel) > 1 && len(f.Rel[1]) > 150) {
				labels = append(labels, "deep_or_long_repetitive_paths")
				break
			}
		}
		if res.headerCut {
			labels = append(labels, "cut_inside_header")
		}
		if res.boundaryCut {
			labels = append(labels, "cut_at_entry_boundary")
		}
		if cs.Shrink >= 0 {
			labels = append(labels, "source_shrunk")
		}
		if res.shrunkOpen {
			labels = append(labels, "source_shrunk_while_its_entry_was_being_read")
		}
		if cs.Grow >= 0 {
			labels = append(labels, "source_extended")
		}
		if res.entries == 0 {
			labels = append(labels, "empty_directory")
		}
		c.eval(cs, res.headerCut || res.boundaryCut, labels...)
		return msg
	})
}

// TestVF_C15Exhaustive: for small trees, every single cut and every pair of cuts of the stream (thorough).
func TestVF_C15Exhaustive(t *testing.T) {
	c := vfNewCollector("C15", "TestVF_C15Exhaustive")
	defer vfFlushAll()
	if vfReplayOnly() {
		return
	}
	shard, shards := vfShard()
	trees := []vfTree{
		{Files: []vfFile{{Rel: []string{"d"}, IsDir: true}, {Rel: []string{"d", "a"}, Size: 3, Kind: vfKindText, Seed: 1}, {Rel: []string{"d", "e"}, IsDir: true},
			{Rel: []string{"d", "z"}, Size: 0}, {Rel: []string{"d", "b"}, Size: 1, Kind: vfKindNoise, Seed: 2}}},
		{Files: []vfFile{{Rel: []string{"目录"}, IsDir: true}, {Rel: []string{"目录", "子"}, IsDir: true}, {Rel: []string{"目录", "子", "文件"}, Size: 17, Kind: vfKindEscapeRich, Seed: 3},
			{Rel: []string{"目录", "x y"}, Size: 2, Kind: vfKindText, Seed: 4}}},
		{Files: []vfFile{{Rel: []string{"n"}, IsDir: true}, {Rel: []string{"n", "nl"}, Size: 9, Kind: vfKindText, Seed: 52}, {Rel: []string{"n", "e1"}, IsDir: true},
			{Rel: []string{"n", "e1", "e2"}, IsDir: true}, {Rel: []string{"n", "one"}, Size: 1, Kind: vfKindZeros}}},
		{Files: []vfFile{{Rel: []string{"only"}, IsDir: true}, {Rel: []string{"only", "f"}, Size: 40, Kind: vfKindNoise, Seed: 9}}},
	}
	maxPairLen := vfEnvInt("VERIF_C15_PAIRLEN", 160)
	var evals, nontriv int64
	job := 0
	for ti, tr := range trees {
		// learn the stream length with a dry run
		var res vfC15Res
		if msg := vfC15Run(vfC15Case{Tree: tr, Shrink: -1, Grow: -1}, &res); msg != "" {
			c.violation("exhaustive", tr, msg)
			t.Fatalf("%s", msg)
		}
		n := res.streamLen
		for a := 1; a < n; a++ {
			for b := a; b < n; b++ {
				if b > a && n > maxPairLen {
					break
				}
				job++
				if job%shards != shard {
					continue
				}
				cs := vfC15Case{Tree: tr, Cuts: []int{a}, Shrink: -1, Grow: -1}
				if b > a {
					cs.Cuts = []int{a, b}
				}
				var r vfC15Res
				msg := vfGuard(func() string { return vfC15Run(cs, &r) })
				evals++
				if r.headerCut || r.boundaryCut {
					nontriv++
				}
				if msg != "" {
					c.violation("exhaustive", cs, msg)
					c.evalEnum(evals, nontriv, "all_cut_pairs")
					t.Fatalf("tree %d cuts %v: %s", ti, cs.Cuts, msg)
				}
			}
		}
		c.addSample(map[string]any{"tree": tr, "stream_len": n, "enumerated": "every single cut and every pair of cuts"})
	}
	c.evalEnum(evals, nontriv, "all_cut_pairs")
	c.mu.Lock()
	c.Exhaustive = true
	c.mu.Unlock()
}
