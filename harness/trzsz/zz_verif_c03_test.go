//go:build verif

// C03 — stream reassembly does not depend on how the transport chunks the bytes.
// Oracle: an independent reference parser over the concatenated stream with one cursor, plus the
// "no over-pull" proxy for "delivered without waiting".

package trzsz

import (
	"bytes"
	"fmt"
	"testing"
	"time"

	"pgregory.net/rapid"
)

// op kinds
const (
	vfOpStrict = 0
	vfOpJunk   = 1
	vfOpBinary = 2
)

type vfC03Op struct {
	Kind int `json:"k"`
	N    int `json:"n,omitempty"`
	// Expired: the read is issued with a timer that has already fired while its data may already be queued. Whichever the reader
	// notices first, a read that fails with the timeout has consumed nothing: the same read issued again delivers what the reference
	// says. Only used for reads that start exactly at a chunk boundary and end inside the next chunk: the timer is then looked at
	// once, before anything has been pulled (a timeout after part of a line has been pulled does lose that part).
	Expired bool `json:"x,omitempty"`
}

type vfC03Case struct {
	Stream []byte    `json:"stream"`
	Cuts   []int     `json:"cuts"` // ascending interior cut positions (0 < c < len)
	Ops    []vfC03Op `json:"ops"`
}

type vfC03Ref struct {
	kind     string // "data" | "interrupt" | "incomplete"
	data     []byte
	lastByte int // absolute index of the last byte the operation needed (-1: none)
	cursor   int
}

// vfC03RefOp is the reference semantics, written from the property statement.
func vfC03RefOp(stream []byte, cur int, op vfC03Op) vfC03Ref {
	switch op.Kind {
	case vfOpBinary:
		if op.N == 0 {
			return vfC03Ref{kind: "data", data: []byte{}, lastByte: -1, cursor: cur}
		}
		if cur+op.N > len(stream) {
			return vfC03Ref{kind: "incomplete"}
		}
		return vfC03Ref{kind: "data", data: stream[cur : cur+op.N], lastByte: cur + op.N - 1, cursor: cur + op.N}
	}
	var acc []byte
	for {
		lf := bytes.IndexByte(stream[cur:], '\n')
		end := len(stream)
		if lf >= 0 {
			end = cur + lf
		}
		seg := stream[cur:end]
		if i := bytes.IndexByte(seg, 0x03); i >= 0 {
			return vfC03Ref{kind: "interrupt", lastByte: cur + i}
		}
		if lf < 0 {
			return vfC03Ref{kind: "incomplete"}
		}
		acc = append(acc, seg...)
		cur = end + 1
		if op.Kind == vfOpJunk && len(acc) > 0 && acc[len(acc)-1] == '\r' {
			acc = acc[:len(acc)-1]
			continue
		}
		if acc == nil {
			acc = []byte{}
		}
		return vfC03Ref{kind: "data", data: acc, lastByte: end, cursor: cur}
	}
}

func vfChunks(stream []byte, cuts []int) [][]byte {
	var out [][]byte
	prev := 0
	for _, c := range cuts {
		if c <= prev || c >= len(stream) {
			continue
		}
		out = append(out, stream[prev:c])
		prev = c
	}
	if prev < len(stream) {
		out = append(out, stream[prev:])
	}
	return out
}

// vfC03Run returns "" if the implementation agrees with the reference; nontrivial reports whether some
// result spanned a chunk boundary.
func vfC03Run(cs vfC03Case) (msg string, nontrivial bool, nOps int) {
	chunks := vfChunks(cs.Stream, cs.Cuts)
	// chunk index of every byte
	chunkEnd := make([]int, len(chunks)) // exclusive end offsets
	off := 0
	for i, ch := range chunks {
		off += len(ch)
		chunkEnd[i] = off
	}
	chunkOf := func(idx int) int {
		for i, e := range chunkEnd {
			if idx < e {
				return i
			}
		}
		return len(chunkEnd) - 1
	}
	b := newTrzszBuffer()
	for _, ch := range chunks {
		cp := make([]byte, len(ch))
		copy(cp, ch)
		b.addBuffer(cp)
	}
	b.addBuffer([]byte("SENTINEL\n")) // never needed by an issued operation
	total := len(chunks) + 1
	consumedBefore := 0
	cur := 0
	afterInterrupt := false
	for i, op := range cs.Ops {
		ref := vfC03RefOp(cs.Stream, cur, op)
		if ref.kind == "incomplete" {
			break // never issue a read that cannot complete
		}
		nOps++
		var got []byte
		var err error
		var to <-chan time.Time
		atChunkStart := cur == 0 && consumedBefore == 0
		if consumedBefore > 0 && consumedBefore <= len(chunkEnd) && cur == chunkEnd[consumedBefore-1] {
			atChunkStart = true
		}
		if op.Expired && atChunkStart && ref.lastByte >= cur && chunkOf(ref.lastByte) == consumedBefore && consumedBefore < len(chunks) {
			fired := make(chan time.Time)
			close(fired)
			to = fired
		}
		for attempt := 0; attempt < 2; attempt++ {
			switch op.Kind {
			case vfOpStrict:
				got, err = b.readLine(false, to)
			case vfOpJunk:
				got, err = b.readLine(true, to)
			case vfOpBinary:
				got, err = b.readBinary(op.N, to)
			}
			if to == nil || err != errReceiveDataTimeout {
				break
			}
			to = nil // timed out before anything was pulled: the same read again, without a timer
		}
		if ref.kind == "interrupt" {
			if err == nil || err.Error() != "Interrupted" {
				return fmt.Sprintf("op %d %+v: reference says interrupt (Ctrl-C at %d), implementation returned %s err=%v",
					i, op, ref.lastByte, vfShort(got, 40), err), nontrivial, nOps
			}
			// A transfer is dead after an interrupt, but its reader is not: a relay hands what is left to the other side (popBuffer),
			// and a caller may read on. Where the reader stands afterwards is independent of the segmentation only if the LF that
			// ends the interrupted piece lies in the same read as the Ctrl-C: then everything behind that LF is still to come.
			lf := bytes.IndexByte(cs.Stream[ref.lastByte:], '\n')
			if lf < 0 || chunkOf(ref.lastByte+lf) != chunkOf(ref.lastByte) {
				return "", nontrivial, nOps
			}
			if consumed := total - len(b.bufCh); consumed != chunkOf(ref.lastByte)+1 {
				return fmt.Sprintf("op %d %+v: interrupted by the Ctrl-C at %d after pulling %d chunks, it lies in chunk %d", i, op, ref.lastByte, consumed, chunkOf(ref.lastByte)), nontrivial, nOps
			}
			consumedBefore = chunkOf(ref.lastByte) + 1
			cur = ref.lastByte + lf + 1
			afterInterrupt = true
			continue
		}
		if err != nil {
			return fmt.Sprintf("op %d %+v: unexpected error %v (reference %s)", i, op, err, vfShort(ref.data, 40)), nontrivial, nOps
		}
		if !bytes.Equal(got, ref.data) {
			return fmt.Sprintf("op %d %+v at cursor %d: got %s want %s", i, op, cur, vfShort(got, 60), vfShort(ref.data, 60)), nontrivial, nOps
		}
		consumed := total - len(b.bufCh)
		want := consumedBefore
		if ref.lastByte >= 0 {
			if j := chunkOf(ref.lastByte) + 1; j > want {
				want = j
			}
			if ref.lastByte >= cur && chunkOf(cur) != chunkOf(ref.lastByte) {
				nontrivial = true
			}
		}
		if consumed != want {
			return fmt.Sprintf("op %d %+v: pulled %d chunks, the last byte needed (%d) lies in chunk %d (waited for further input)",
				i, op, consumed, ref.lastByte, want-1), nontrivial, nOps
		}
		consumedBefore = consumed
		cur = ref.cursor
	}
	// what the reads left behind is handed on piece by piece (the relay's flush): nothing lost, nothing twice
	var rest []byte
	for {
		piece := b.popBuffer()
		if piece == nil {
			break
		}
		rest = append(rest, piece...)
	}
	if want := append(append([]byte(nil), cs.Stream[cur:]...), "SENTINEL\n"...); !bytes.Equal(rest, want) {
		return fmt.Sprintf("after %d reads (interrupted before: %v) the reader stands at %d; handing on what is left gave %s, the stream continues with %s",
			nOps, afterInterrupt, cur, vfShort(rest, 60), vfShort(want, 60)), nontrivial, nOps
	}
	return "", nontrivial, nOps
}

var vfC03Sigma = []byte{'a', '\n', '\r', '#', ':', 0x03}

func vfGenCuts(rt *rapid.T, n int, label string) []int {
	if n <= 1 {
		return nil
	}
	mode := rapid.IntRange(0, 4).Draw(rt, label+"_mode")
	var cuts []int
	switch mode {
	case 0: // every byte its own read
		for i := 1; i < n; i++ {
			cuts = append(cuts, i)
		}
	case 1: // single read
	case 2: // fixed small size
		sz := rapid.IntRange(1, 7).Draw(rt, label+"_sz")
		for i := sz; i < n; i += sz {
			cuts = append(cuts, i)
		}
	default: // arbitrary subset
		k := rapid.IntRange(1, minInt(n-1, 24)).Draw(rt, label+"_k")
		set := map[int]bool{}
		for i := 0; i < k; i++ {
			set[rapid.IntRange(1, n-1).Draw(rt, label+"_c")] = true
		}
		for i := 1; i < n; i++ {
			if set[i] {
				cuts = append(cuts, i)
			}
		}
	}
	return cuts
}

func vfGenC03(rt *rapid.T) vfC03Case {
	var cs vfC03Case
	long := rapid.IntRange(0, 9).Draw(rt, "long") == 0
	if long {
		n := rapid.IntRange(200, 65536).Draw(rt, "n")
		density := rapid.IntRange(1, 400).Draw(rt, "density") // mean distance between special bytes
		seed := rapid.Uint64().Draw(rt, "seed")
		cs.Stream = make([]byte, n)
		x := seed | 1
		for i := range cs.Stream {
			x ^= x << 13
			x ^= x >> 7
			x ^= x << 17
			v := byte(x >> 24)
			if int((x>>40)%uint64(density)) == 0 {
				v = []byte{'\n', '\r', '\n', '\r', '\n', 0x03}[(x>>52)%6]
				if v == 0x03 && (x>>60)%4 != 0 {
					v = '\n'
				}
			} else if v == 0x03 {
				v = 'x'
			}
			cs.Stream[i] = v
		}
		// chunking for long streams: sizes drawn from a small set, at most ~4000 chunks
		szs := []int{1, 2, 3, 7, 31, 32, 33, 255, 1024, 4096, 32768}
		base := rapid.SampledFrom(szs).Draw(rt, "chunk")
		if n/base > 4000 {
			base = n/4000 + 1
		}
		jitter := rapid.Bool().Draw(rt, "jitter")
		pos := 0
		for pos < n {
			step := base
			if jitter {
				x ^= x << 13
				x ^= x >> 7
				x ^= x << 17
				step = 1 + int(x%uint64(2*base))
			}
			pos += step
			if pos < n {
				cs.Cuts = append(cs.Cuts, pos)
			}
		}
	} else {
		alpha := vfC03Sigma
		if rapid.IntRange(0, 3).Draw(rt, "alpha") == 0 {
			alpha = []byte{'a', 'b', '\n', '\r', '#', ':', 0x03, 0, 0xee, '!', 0x1b}
		}
		n := rapid.IntRange(1, 40).Draw(rt, "n")
		cs.Stream = make([]byte, n)
		noCtrlC := rapid.IntRange(0, 2).Draw(rt, "noctrlc") > 0
		for i := range cs.Stream {
			c := rapid.SampledFrom(alpha).Draw(rt, "b")
			if c == 0x03 && noCtrlC {
				c = '\n'
			}
			cs.Stream[i] = c
		}
		cs.Cuts = vfGenCuts(rt, n, "cut")
	}
	nops := rapid.IntRange(1, 12).Draw(rt, "nops")
	if long {
		nops = rapid.IntRange(1, 200).Draw(rt, "nopsl")
	}
	sched := rapid.IntRange(0, 4).Draw(rt, "sched")
	for i := 0; i < nops; i++ {
		var op vfC03Op
		switch sched {
		case 0:
			op.Kind = vfOpStrict
		case 1:
			op.Kind = vfOpJunk
		default:
			op.Kind = rapid.IntRange(0, 2).Draw(rt, "kind")
		}
		if op.Kind == vfOpBinary {
			mx := 6
			if long {
				mx = 5000
			}
			op.N = rapid.IntRange(0, mx).Draw(rt, "bn")
		}
		op.Expired = rapid.IntRange(0, 3).Draw(rt, "expired") == 0
		cs.Ops = append(cs.Ops, op)
	}
	return cs
}

func TestVF_C03(t *testing.T) {
	c := vfNewCollector("C03", "TestVF_C03")
	vfCheck(t, c, vfGenC03, func(cs vfC03Case) string {
		msg, nt, nops := vfC03Run(cs)
		lbl := "short"
		if len(cs.Stream) >= 200 {
			lbl = "long"
		}
		nchunks := len(vfChunks(cs.Stream, cs.Cuts))
		c.eval(cs, nt && nchunks >= 2 && nops >= 1, lbl, fmt.Sprintf("ops_issued_%s", vfBucket(nops)))
		return msg
	})
}

func vfBucket(n int) string {
	switch {
	case n == 0:
		return "0"
	case n == 1:
		return "1"
	case n <= 4:
		return "2-4"
	case n <= 16:
		return "5-16"
	case n <= 64:
		return "17-64"
	default:
		return "65+"
	}
}

// TestVF_C03Exhaustive enumerates every stream of length <= L over the six-symbol alphabet, every
// segmentation and a fixed family of eight operation schedules (thorough tier; sharded by stream index).
func TestVF_C03Exhaustive(t *testing.T) {
	c := vfNewCollector("C03", "TestVF_C03Exhaustive")
	if vfReplayOnly() {
		return
	}
	maxLen := vfEnvInt("VERIF_C03_MAXLEN", 4)
	shard, shards := vfShard()
	scheds := [][]vfC03Op{
		{{Kind: vfOpStrict}},
		{{Kind: vfOpJunk}},
		{{Kind: vfOpStrict}, {Kind: vfOpJunk}},
		{{Kind: vfOpJunk}, {Kind: vfOpStrict}},
		{{Kind: vfOpBinary, N: 1}, {Kind: vfOpStrict}, {Kind: vfOpBinary, N: 2}, {Kind: vfOpJunk}},
		{{Kind: vfOpJunk}, {Kind: vfOpBinary, N: 1}, {Kind: vfOpJunk}, {Kind: vfOpBinary, N: 3}},
		{{Kind: vfOpBinary, N: 2}, {Kind: vfOpBinary, N: 1}, {Kind: vfOpStrict}, {Kind: vfOpBinary, N: 3}},
		{{Kind: vfOpStrict}, {Kind: vfOpBinary, N: 3}, {Kind: vfOpJunk}, {Kind: vfOpBinary, N: 1}},
	}
	// each schedule is repeated to cover the whole stream
	var idx int64
	var evals, nontriv int64
	for n := 1; n <= maxLen; n++ {
		total := 1
		for i := 0; i < n; i++ {
			total *= len(vfC03Sigma)
		}
		for s := 0; s < total; s++ {
			idx++
			if int(idx%int64(shards)) != shard {
				continue
			}
			stream := make([]byte, n)
			v := s
			for i := 0; i < n; i++ {
				stream[i] = vfC03Sigma[v%len(vfC03Sigma)]
				v /= len(vfC03Sigma)
			}
			for seg := 0; seg < 1<<(n-1); seg++ {
				var cuts []int
				for i := 1; i < n; i++ {
					if seg&(1<<(i-1)) != 0 {
						cuts = append(cuts, i)
					}
				}
				for _, sc := range scheds {
					var ops []vfC03Op
					for len(ops) < n+1 {
						ops = append(ops, sc...)
					}
					cs := vfC03Case{Stream: stream, Cuts: cuts, Ops: ops}
					msg := vfGuard(func() string {
						m, nt, _ := vfC03Run(cs)
						if nt {
							nontriv++
						}
						return m
					})
					evals++
					if msg != "" {
						c.violation("exhaustive", cs, msg)
						c.evalEnum(evals, nontriv, "exhaustive")
						t.Fatalf("%s (case %s)", msg, vfCanon(cs))
					}
				}
			}
			if idx%997 == 0 {
				c.addSample(map[string]any{"stream": string(stream), "segmentations": 1 << (n - 1), "schedules": len(scheds)})
			}
		}
	}
	c.evalEnum(evals, nontriv, "exhaustive")
	c.mu.Lock()
	c.Exhaustive = true
	c.Extra["max_exhaustive_len"] = int64(maxLen)
	c.mu.Unlock()
}
