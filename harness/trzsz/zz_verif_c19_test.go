//go:build verif

// C19 — a zmodem session always ends by handing the terminal back.

package trzsz

import (
	"bytes"
	"fmt"
	"os"
	"path/filepath"
	"strings"
	"sync"
	"testing"
	"time"

	"pgregory.net/rapid"
)

type vfC19Case struct {
	Upload      bool   `json:"upload"`       // rz runs on the server (upload) / sz runs on the server (download)
	HeaderNoise string `json:"header_noise"` // "" | cancel | cannot_open : alongside the header, no session may start
	Helper      string `json:"helper"`       // talk | silent | exit_now | late:<ms> | missing
	HelperExit  int    `json:"helper_exit"`
	Server      string `json:"server"` // finishes | cancel_early | cancel_late | keeps_sending | quiet
	Reactive    bool   `json:"reactive"` // the server prints a prompt when it receives the cancel sequence
	CtrlCMs     int    `json:"ctrlc_ms"` // -1: none
	TypeFirst   string `json:"type_first,omitempty"` // "" | keys | ctrlc : after the hand-back the user types before the server prints anything
	WaitS       int    `json:"wait_s,omitempty"` // how long to wait for the end event (default 8 s; the inactivity timers need 20 s and more)
}

type vfC19Res struct {
	second   bool // a second session was started in the same filter
	started  bool
	endEvent string
}

var vfCancelSeq = []byte("\x18\x18\x18\x18\x18\x18\x18\x18\x18\x18\x08\x08\x08\x08\x08\x08\x08\x08\x08\x08")

func vfC19Run(cs vfC19Case, res *vfC19Res) string {
	base, err := os.MkdirTemp("", "vfc19")
	if err != nil {
		return "mkdtemp: " + err.Error()
	}
	defer os.RemoveAll(base)
	logFile := filepath.Join(base, "helper.log")
	dest := filepath.Join(base, "dest")
	os.MkdirAll(dest, 0755)
	upFile := filepath.Join(base, "up.bin")
	os.WriteFile(upFile, []byte("upload me"), 0644)
	oldPath := os.Getenv("PATH")
	defer os.Setenv("PATH", oldPath)
	helpers := filepath.Join(vfEnv("VERIF_BIN", "."), "zmhelpers")
	clean := []string{}
	for _, d := range strings.Split(oldPath, ":") {
		if d != helpers {
			clean = append(clean, d)
		}
	}
	if cs.Helper == "missing" {
		os.Setenv("PATH", strings.Join(clean, ":"))
	} else {
		os.Setenv("PATH", helpers+":"+strings.Join(clean, ":"))
	}
	os.Setenv("FAKEZM_MODE", cs.Helper)
	os.Setenv("FAKEZM_EXIT", fmt.Sprint(cs.HelperExit))
	os.Setenv("FAKEZM_LOG", logFile)
	vfCurCase("TestVF_C19", cs)
	sess := vfNewSession(vfSessOpts{Zmodem: true})
	defer sess.close()
	if cs.Upload {
		if _, err := sess.filter.OneTimeUpload([]string{upFile}); err != nil {
			return "OneTimeUpload: " + err.Error()
		}
	} else {
		sess.filter.SetDefaultDownloadPath(dest)
	}
	hdr := "**\x18B00000000000000\r\x8a\x11"
	if cs.Upload {
		hdr = "rz waiting to receive.**\x18B0100000023be50\r\x8a\x11"
	}
	switch cs.HeaderNoise {
	case "cancel":
		hdr += "\x18\x18\x18\x18\x18\x18\x18\x18\x18\x18\x08\x08\x08\x08\x08"
	case "cannot_open":
		hdr = "sz: cannot open nofile: No such file or directory\r\n" + hdr
	}
	var mu sync.Mutex
	lastServerOut := time.Now()
	srvOut := func(b []byte) {
		mu.Lock()
		lastServerOut = time.Now()
		mu.Unlock()
		sess.shellOutput(b)
	}
	t0 := time.Now()
	termBase := sess.termOut.len()
	srvOut([]byte(hdr))
	if cs.HeaderNoise != "" {
		// no session: everything stays transparent right away
		time.Sleep(300 * time.Millisecond)
		if !bytes.Contains(sess.termOut.bytes()[termBase:], []byte(hdr)) {
			return "output carrying a header together with " + cs.HeaderNoise + " did not pass through unchanged"
		}
		if b, _ := os.ReadFile(logFile); bytes.Contains(b, []byte("started")) {
			return "a helper was started although the header came with " + cs.HeaderNoise
		}
		in := []byte("typed-after-noise")
		sess.typeInput(in)
		vfWaitLen(sess.shellIn, len(in), 2*time.Second)
		if !bytes.Contains(sess.shellIn.bytes(), in) {
			return "typed input did not reach the server although no session was started"
		}
		res.endEvent = "no_session"
		return ""
	}
	// scripted server
	var wg sync.WaitGroup
	stop := make(chan struct{})
	var remoteCancelAt time.Time
	helperHello := func() bool { return bytes.Contains(sess.shellIn.bytes(), []byte("HELLO-FROM-HELPER")) }
	if cs.Helper == "linger" {
		os.Setenv("FAKEZM_MODE", "linger")
	}
	wg.Add(1)
	go func() {
		defer wg.Done()
		waitHello := func(limit time.Duration) bool {
			d := time.Now().Add(limit)
			for time.Now().Before(d) {
				if helperHello() {
					return true
				}
				select {
				case <-stop:
					return false
				case <-time.After(5 * time.Millisecond):
				}
			}
			return false
		}
		switch cs.Server {
		case "finishes":
			if waitHello(1500 * time.Millisecond) {
				srvOut([]byte("**\x18B0800000000022d\r\x8a"))
			}
		case "finishes_twice":
			// the goodbye arrives (in a short read of its own) once the helper runs, is repeated, a prompt follows, then silence
			d := time.Now().Add(1500 * time.Millisecond)
			for time.Now().Before(d) {
				if b, _ := os.ReadFile(logFile); bytes.Contains(b, []byte("started")) {
					break
				}
				time.Sleep(5 * time.Millisecond)
			}
			time.Sleep(60 * time.Millisecond)
			srvOut([]byte("**\x18B0800000000022d\r\x8a"))
			time.Sleep(80 * time.Millisecond)
			srvOut([]byte("**\x18B0800000000022d\r\x8a"))
			time.Sleep(80 * time.Millisecond)
			srvOut([]byte("OO"))
		case "cancel_early":
			time.Sleep(20 * time.Millisecond)
			mu.Lock()
			remoteCancelAt = time.Now()
			mu.Unlock()
			srvOut(vfCancelSeq)
		case "cancel_late":
			waitHello(1500 * time.Millisecond)
			mu.Lock()
			remoteCancelAt = time.Now()
			mu.Unlock()
			srvOut(vfCancelSeq)
		case "keeps_sending":
			for i := 0; i < 25; i++ {
				select {
				case <-stop:
					return
				case <-time.After(50 * time.Millisecond):
				}
				// zmodem data is full of ZDLE (0x18) escapes, and a read can end anywhere - also right after one
				srvOut([]byte([]string{"zmodem-data-from-server........", "zmodem-data\x18", "\x18", "data\x18h\x18i\x18", "....\x18\x69....\x18", "\x18\x18"}[i%6]))
			}
		}
	}()
	if cs.Reactive {
		wg.Add(1)
		go func() {
			defer wg.Done()
			d := time.Now().Add(6 * time.Second)
			for time.Now().Before(d) {
				if bytes.Contains(sess.shellIn.bytes(), vfCancelSeq) {
					time.Sleep(50 * time.Millisecond)
					srvOut([]byte("\r\n^C\r\nuser@host:~$ "))
					return
				}
				select {
				case <-stop:
					return
				case <-time.After(5 * time.Millisecond):
				}
			}
		}()
	}
	var ctrlCAt time.Time
	if cs.CtrlCMs >= 0 {
		// "at any time" of the session: from the moment the filter has registered it
		reg := time.Now().Add(3 * time.Second)
		for sess.filter.zmodem.Load() == nil && time.Now().Before(reg) {
			time.Sleep(50 * time.Microsecond)
		}
		time.Sleep(time.Duration(cs.CtrlCMs) * time.Millisecond)
		ctrlCAt = time.Now()
		sess.typeInput([]byte{0x03})
	}
	// wait for an end event: one of the messages the session prints, or the remote cancel before the helper started
	endMsgs := []string{"Stopped", "client exit with", "Success!!", "client failed", "timeout", "No such", "Cancelled"}
	var endAt time.Time
	wait := 8 * time.Second
	if cs.WaitS > 0 {
		wait = time.Duration(cs.WaitS) * time.Second
	}
	deadline := time.Now().Add(wait)
	for time.Now().Before(deadline) && endAt.IsZero() {
		out := sess.termOut.bytes()[termBase:]
		for _, m := range endMsgs {
			if bytes.Contains(out, []byte(m)) {
				endAt = time.Now()
				res.endEvent = m
			}
		}
		mu.Lock()
		rc := remoteCancelAt
		mu.Unlock()
		if endAt.IsZero() && !rc.IsZero() && time.Since(rc) > 300*time.Millisecond {
			endAt = rc
			res.endEvent = "remote_cancel"
		}
		time.Sleep(5 * time.Millisecond)
	}
	close(stop)
	wg.Wait()
	if b, _ := os.ReadFile(logFile); bytes.Contains(b, []byte("started")) {
		res.started = true
	}
	if endAt.IsZero() {
		return fmt.Sprintf("no end event within %v (helper=%s server=%s ctrl-c=%d): terminal shows %s", wait, cs.Helper, cs.Server, cs.CtrlCMs, vfShort(sess.termOut.bytes()[termBase:], 200))
	}
	// helper started iff the header stood alone (and nothing ended the session before it could start)
	earlyEnd := cs.Server == "cancel_early" || (cs.CtrlCMs >= 0 && cs.CtrlCMs < 300) // the helper is launched 100-150 ms after the header
	if cs.Helper != "missing" && !earlyEnd && !res.started {
		return "the header stood alone but the helper was not started"
	}
	// the side that is still waiting is sent the cancel sequence
	if res.endEvent != "remote_cancel" && !(cs.Server == "cancel_early" || cs.Server == "cancel_late") {
		d := time.Now().Add(2 * time.Second)
		for !bytes.Contains(sess.shellIn.bytes(), vfCancelSeq) && time.Now().Before(d) {
			time.Sleep(5 * time.Millisecond)
		}
		if !bytes.Contains(sess.shellIn.bytes(), vfCancelSeq) {
			return fmt.Sprintf("after the end event %q the waiting server was not sent the cancel sequence", res.endEvent)
		}
	}
	_ = ctrlCAt
	_ = t0
	// once the remote side has been quiet for about half a second the terminal is handed back
	for {
		mu.Lock()
		quietSince := lastServerOut
		mu.Unlock()
		ref := quietSince
		if endAt.After(ref) {
			ref = endAt
		}
		if time.Since(ref) >= 1500*time.Millisecond { // 0.5 s quiet + 1 s slack
			break
		}
		time.Sleep(20 * time.Millisecond)
	}
	if cs.TypeFirst != "" {
		// the session is over and the server stays quiet (a shell that waits for the next command): the next thing that happens is
		// the user typing - ordinary keys with an erase among them, or a lone Ctrl-C. All of it belongs to the server.
		keys := []byte("xy\x7fz\r")
		if cs.TypeFirst == "ctrlc" {
			keys = []byte{0x03}
		}
		shellBase := sess.shellIn.len()
		sess.typeInput(keys)
		dd := time.Now().Add(2 * time.Second)
		for !bytes.Contains(sess.shellIn.bytes()[shellBase:], keys) && time.Now().Before(dd) {
			time.Sleep(5 * time.Millisecond)
		}
		if !bytes.Contains(sess.shellIn.bytes()[shellBase:], keys) {
			return fmt.Sprintf("1.5 s after the end event (%s) with a quiet server, typed input %q did not reach the server (it got %s) (helper=%s server=%s reactive=%v ctrl-c=%d)",
				res.endEvent, keys, vfShort(sess.shellIn.bytes()[shellBase:], 60), cs.Helper, cs.Server, cs.Reactive, cs.CtrlCMs)
		}
	}
	probe := []byte("<<ZMODEM-PROBE-OUTPUT>>")
	probeFrom := sess.termOut.len()
	sess.shellOutput(probe)
	in := []byte("<<typed-after-zmodem>>")
	sess.typeInput(in)
	d := time.Now().Add(2 * time.Second)
	okOut, okIn := false, false
	for time.Now().Before(d) && !(okOut && okIn) {
		okOut = bytes.Contains(sess.termOut.bytes(), probe)
		okIn = bytes.Contains(sess.shellIn.bytes(), in)
		time.Sleep(5 * time.Millisecond)
	}
	if !okOut || !okIn {
		return fmt.Sprintf("1.5 s after the end event (%s) with a quiet server the terminal was not handed back: server output passes=%v, typed input passes=%v (helper=%s server=%s reactive=%v ctrl-c=%d)",
			res.endEvent, okOut, okIn, cs.Helper, cs.Server, cs.Reactive, cs.CtrlCMs)
	}
	// normal pass-through from here on: the first output after the session gives the cursor back (one show-cursor sequence in
	// front of it, part of the session's end); what follows arrives exactly as it was printed
	_ = probeFrom
	time.Sleep(50 * time.Millisecond)
	probe2 := []byte("<<SECOND-PROBE-AFTER-ZMODEM>>\r\n")
	from2 := sess.termOut.len()
	sess.shellOutput(probe2)
	vfWaitLen(sess.termOut, from2+len(probe2), 2*time.Second)
	time.Sleep(30 * time.Millisecond)
	if got := sess.termOut.bytes()[from2:]; !bytes.Equal(got, probe2) {
		return fmt.Sprintf("after the session ended (%s) server output no longer passes unchanged: printed %q, the terminal got %s", res.endEvent, probe2, vfShort(got, 80))
	}
	// and the next start header starts a session of its own
	if cs.Helper != "missing" {
		startedBefore := 0
		if b, err := os.ReadFile(logFile); err == nil {
			startedBefore = bytes.Count(b, []byte("started"))
		}
		os.Setenv("FAKEZM_MODE", "talk")
		if cs.Upload {
			if _, err := sess.filter.OneTimeUpload([]string{upFile}); err != nil {
				return "" // the one-time upload of the first session is still pending: no second session to ask for
			}
		}
		sess.shellOutput([]byte(hdr))
		deadline := time.Now().Add(4 * time.Second)
		again := false
		for time.Now().Before(deadline) && !again {
			if b, err := os.ReadFile(logFile); err == nil && bytes.Count(b, []byte("started")) > startedBefore {
				again = true
			}
			time.Sleep(10 * time.Millisecond)
		}
		if !again {
			return fmt.Sprintf("a second start header after the first session had ended (%s) started no helper", res.endEvent)
		}
		res.second = true
		// end it: Ctrl-C, and wait for the hand-back
		sess.typeInput([]byte{0x03})
		time.Sleep(1200 * time.Millisecond)
	}
	return ""
}

func vfGenC19(rt *rapid.T) vfC19Case {
	var cs vfC19Case
	cs.Upload = rapid.Bool().Draw(rt, "upload")
	if rapid.IntRange(0, 7).Draw(rt, "noise") == 0 {
		cs.HeaderNoise = rapid.SampledFrom([]string{"cancel", "cannot_open"}).Draw(rt, "noisekind")
	}
	cs.Helper = rapid.SampledFrom([]string{"talk", "talk", "silent", "exit_now", "late:600", "missing", "linger"}).Draw(rt, "helper")
	cs.HelperExit = rapid.SampledFrom([]int{0, 0, 1, 3}).Draw(rt, "exit")
	cs.Server = rapid.SampledFrom([]string{"finishes", "cancel_early", "cancel_late", "keeps_sending", "quiet"}).Draw(rt, "server")
	cs.Reactive = rapid.Bool().Draw(rt, "reactive")
	cs.CtrlCMs = -1
	if rapid.IntRange(0, 2).Draw(rt, "ctrlc") == 0 {
		cs.CtrlCMs = rapid.SampledFrom([]int{0, 30, 90, 130, 200, 400, 900}).Draw(rt, "ctrlcms")
	}
	cs.TypeFirst = rapid.SampledFrom([]string{"", "", "keys", "ctrlc"}).Draw(rt, "typefirst")
	// every case needs an end event: the helper exits, cannot start, the remote side cancels, or the user presses Ctrl-C
	ends := cs.Helper == "exit_now" || cs.Helper == "missing" || cs.Server == "cancel_early" || cs.Server == "cancel_late" || cs.CtrlCMs >= 0 ||
		((cs.Helper == "talk" || cs.Helper == "late:600") && cs.Server == "finishes") // a lingering helper never ends by itself
	if !ends {
		cs.CtrlCMs = rapid.SampledFrom([]int{200, 500, 1200}).Draw(rt, "forcedctrlc")
	}
	if cs.Helper == "linger" && cs.CtrlCMs >= 0 && cs.CtrlCMs < 400 && cs.Server == "finishes" {
		cs.CtrlCMs = rapid.SampledFrom([]int{600, 900, 1200}).Draw(rt, "lingerctrlc") // after both sides have said goodbye
	}
	return cs
}

func TestVF_C19(t *testing.T) {
	c := vfNewCollector("C19", "TestVF_C19")
	knownF8 := vfKnown("F8")
	vfCheck(t, c, vfGenC19, func(cs vfC19Case) string {
		_ = knownF8
		var res vfC19Res
		msg := vfC19Run(cs, &res)
		if msg != "" && (strings.Contains(msg, "not handed back") || strings.Contains(msg, "no end event") || strings.Contains(msg, "was not sent")) {
			// timing verdict: must reproduce twice more
			again := 0
			for i := 0; i < 2; i++ {
				var r2 vfC19Res
				if m2 := vfC19Run(cs, &r2); m2 != "" {
					again++
				}
			}
			if again < 2 {
				c.inconclusive("timing_not_reproduced")
				msg = ""
			}
		}
		labels := []string{"helper_" + cs.Helper, "server_" + cs.Server, "end_" + strings.ReplaceAll(res.endEvent, " ", "_")}
		if cs.Upload {
			labels = append(labels, "upload")
		} else {
			labels = append(labels, "download")
		}
		if cs.CtrlCMs >= 0 {
			labels = append(labels, "ctrl_c")
		}
		if cs.Reactive {
			labels = append(labels, "server_reacts_to_cancel")
		} else {
			labels = append(labels, "server_stays_quiet")
		}
		if cs.HeaderNoise != "" {
			labels = append(labels, "header_with_"+cs.HeaderNoise)
		}
		if cs.TypeFirst != "" && cs.HeaderNoise == "" {
			labels = append(labels, "typed_before_any_output_after_handback_"+cs.TypeFirst)
		}
		c.eval(cs, cs.HeaderNoise != "" || res.endEvent != "", labels...)
		return msg
	})
}

// TestVF_C19Timeouts: nothing ends these sessions - the helper stays silent (or lingers), the remote side goes quiet, nobody presses
// Ctrl-C - except the session's own inactivity timers (20 s). The terminal must still come back: an end message within 20 s plus
// slack, the cancel sequence to the waiting side, pass-through afterwards.
func TestVF_C19Timeouts(t *testing.T) {
	c := vfNewCollector("C19", "TestVF_C19Timeouts")
	defer vfFlushAll()
	for _, f := range vfCaseFilesFor(c.Test) {
		var cs vfC19Case
		if err := jsonUnmarshal(f.Case, &cs); err != nil {
			t.Errorf("bad case file %s: %v", f.Path, err)
			continue
		}
		var res vfC19Res
		msg := vfGuardTimed(c, cs, func() string { return vfC19Run(cs, &res) })
		c.eval(cs, true, "inactivity_timeout")
		if msg != "" {
			c.violation("regress:"+filepath.Base(f.Path), cs, msg)
			t.Errorf("case file %s fails: %s", f.Path, msg)
		}
	}
	if vfReplayOnly() || t.Failed() {
		return
	}
	shard, shards := vfShard()
	job := 0
	for _, upload := range []bool{false, true} {
		for _, helper := range []string{"silent", "mute_linger"} {
			for _, server := range []string{"quiet", "finishes_twice"} {
				for _, reactive := range []bool{false, true} {
					job++
					if job%shards != shard {
						continue
					}
					cs := vfC19Case{Upload: upload, Helper: helper, Server: server, Reactive: reactive, CtrlCMs: -1, WaitS: 27}
					var res vfC19Res
					msg := vfGuardTimed(c, cs, func() string { return vfC19Run(cs, &res) })
					if msg != "" {
						// a timing verdict must reproduce
						var res2 vfC19Res
						if m2 := vfGuardTimed(c, cs, func() string { return vfC19Run(cs, &res2) }); m2 == "" {
							c.inconclusive("timing_not_reproduced")
							msg = ""
						}
					}
					labels := []string{"inactivity_timeout", "helper_" + helper, "server_" + server, "end_" + strings.ReplaceAll(res.endEvent, " ", "_")}
					if upload {
						labels = append(labels, "upload")
					} else {
						labels = append(labels, "download")
					}
					c.eval(cs, res.endEvent != "", labels...)
					if msg != "" {
						c.violation("enumerated", cs, msg)
						t.Errorf("%+v: %s", cs, msg)
					}
				}
			}
		}
	}
}
