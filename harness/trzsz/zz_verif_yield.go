//go:build verif

// Schedule points for the yield-instrumented build (tools/yieldify inserts the calls into a scratch copy of the
// sources). Without an installed plan a call costs one atomic load.

package trzsz

import (
	"runtime"
	"sync"
	"sync/atomic"
	"time"
)

type vfYieldStep struct {
	Site  string `json:"site"`  // "file.go:line"
	Hit   int    `json:"hit"`   // which visit of that site (from 0)
	Delay int    `json:"delay"` // <0: that many runtime.Gosched(); >=0: microseconds of sleep
}

type vfYieldPlan struct {
	mu    sync.Mutex
	steps []vfYieldStep
	hits  map[string]int
	fired int
	sites map[string]int // every site visited (for the evidence)
}

var vfYieldActive atomic.Pointer[vfYieldPlan]

func vfYield(site string) {
	p := vfYieldActive.Load()
	if p == nil {
		return
	}
	p.mu.Lock()
	n := p.hits[site]
	p.hits[site] = n + 1
	delay := 0
	hit := false
	for _, s := range p.steps {
		if s.Site == site && s.Hit == n {
			delay = s.Delay
			hit = true
			p.fired++
		}
	}
	p.mu.Unlock()
	if !hit {
		return
	}
	if delay < 0 {
		for i := 0; i < -delay; i++ {
			runtime.Gosched()
		}
		return
	}
	time.Sleep(time.Duration(delay) * time.Microsecond)
}

func vfInstallPlan(steps []vfYieldStep) *vfYieldPlan {
	p := &vfYieldPlan{steps: steps, hits: map[string]int{}}
	vfYieldActive.Store(p)
	return p
}

func vfClearPlan() { vfYieldActive.Store(nil) }
