//go:build verif

// C17 — only the authenticated tunnel connection is ever used, and only one.

package trzsz

import (
	"bytes"
	"fmt"
	"net"
	"os"
	"path/filepath"
	"regexp"
	"strings"
	"strconv"
	"sync"
	"syscall"
	"testing"
	"time"

	"pgregory.net/rapid"
)

type vfProbe struct {
	Kind    string `json:"kind"`     // wrong_greeting wrong_id wrong_port_text right_greeting split_greeting silence flood
	DelayMs int    `json:"delay_ms"` // after the trigger was seen
	Fail    bool   `json:"fail"`     // send well-formed #fail: lines afterwards
}

type vfC17Case struct {
	Scen      vfScenario `json:"scenario"`
	Probes    []vfProbe  `json:"probes"`
	Connector string     `json:"connector"` // immediate refuses late closed
	LateMs    int        `json:"late_ms"`
	GenuineMs int        `json:"genuine_ms"` // the genuine client dials this long after the trigger
	Junk      bool       `json:"junk"`       // in-band junk both ways after the tunnel is in use
	Relays    int        `json:"relays"`
	RelayLate int        `json:"relay_late_ms"` // the relay's own connector towards the server is this late (relay in the path only)
	ActDelay  int        `json:"act_delay_ms"`  // in-band latency for the client's ACT line (a user choosing files, a slow path)
	Chatter   bool       `json:"chatter,omitempty"`  // in-band terminal traffic both ways every 60 ms from the server's first tunnel line until the transfer is over
	HoldCfg   bool       `json:"hold_cfg,omitempty"` // see the tunnel hook: in-band shell output between the action and the configuration
	Impostor  string     `json:"impostor,omitempty"` // connector "impostor": what the thing answering the client's dial presents as its greeting
}

// vfImpostor is what the client's connector reaches instead of the server: it reads the client's greeting, answers with something
// that is NOT the server's greeting, pushes forged protocol lines and records every byte the client sends it afterwards.
type vfImpostor struct {
	ln    net.Listener
	mu    sync.Mutex
	hello []byte // the first read (the client's own greeting)
	after []byte // everything the client wrote afterwards: must stay empty
	conns int
	done  chan struct{}
}

func vfNewImpostor(kind string, ids func() (string, int), forged []byte) (*vfImpostor, error) {
	ln, err := net.Listen("tcp", "127.0.0.1:0")
	if err != nil {
		return nil, err
	}
	im := &vfImpostor{ln: ln, done: make(chan struct{})}
	go func() {
		defer close(im.done)
		conn, err := ln.Accept()
		if err != nil {
			return
		}
		defer conn.Close()
		im.mu.Lock()
		im.conns++
		im.mu.Unlock()
		buf := make([]byte, 4096)
		conn.SetReadDeadline(time.Now().Add(3 * time.Second))
		n, _ := conn.Read(buf)
		im.mu.Lock()
		im.hello = append([]byte(nil), buf[:n]...)
		im.mu.Unlock()
		uid, port := ids()
		_, serverHello := getHelloConstant(uid, port)
		clientHello, _ := getHelloConstant(uid, port)
		var answer []byte
		switch kind {
		case "minus_last_digit":
			answer = []byte(serverHello[:len(serverHello)-1])
		case "no_id_no_port":
			answer = []byte("::TRZSZ::SERVER::HELLO::")
		case "one_colon":
			answer = []byte(":")
		case "wrong_id":
			answer = []byte(fmt.Sprintf("::TRZSZ::SERVER::HELLO::%s:%d", "99999999999", port))
		case "wrong_port":
			answer = []byte(strings.TrimSuffix(serverHello, strconv.Itoa(port)) + strconv.Itoa(port+1))
		case "plus_trailing":
			answer = []byte(serverHello + "\n")
		case "client_greeting_echo":
			answer = []byte(clientHello)
		case "lowercase":
			answer = []byte(strings.ToLower(serverHello))
		case "garbage":
			answer = []byte("SSH-2.0-OpenSSH_9.6\r\n")
		case "close_at_once":
			return
		}
		conn.Write(answer)
		time.Sleep(30 * time.Millisecond)
		conn.Write(forged)
		conn.SetReadDeadline(time.Now().Add(2500 * time.Millisecond))
		for {
			n, err := conn.Read(buf)
			im.mu.Lock()
			im.after = append(im.after, buf[:n]...)
			im.mu.Unlock()
			if err != nil || len(im.after) > 1<<16 {
				return
			}
		}
	}()
	return im, nil
}

func (im *vfImpostor) dial() net.Conn {
	c, err := net.DialTimeout("tcp", im.ln.Addr().String(), time.Second)
	if err != nil {
		return nil
	}
	return c
}

func (im *vfImpostor) close() []byte {
	im.ln.Close()
	select {
	case <-im.done:
	case <-time.After(4 * time.Second):
	}
	im.mu.Lock()
	defer im.mu.Unlock()
	return append([]byte(nil), im.after...)
}

type vfProbeRes struct {
	kind     string
	sentGood bool
	got      []byte
	closed   bool
	err      string
}

var vfTriggerRe = regexp.MustCompile(`::TRZSZ:TRANSFER:[SRD]:\d+\.\d+\.\d+:(\d+):(\d+)`)

func vfRunProbe(p vfProbe, uid string, port int, failLine []byte, adopted <-chan struct{}) vfProbeRes {
	res := vfProbeRes{kind: p.Kind}
	if p.Kind == "right_greeting" {
		// a connection that presents the right greeting first is, by definition, the authenticated one: the foreign
		// connection with the right greeting is only of interest once the genuine one has been adopted
		select {
		case <-adopted:
		case <-time.After(5 * time.Second):
			res.err = "the genuine connection was never adopted: probe not sent"
			res.closed = true
			return res
		}
	}
	time.Sleep(time.Duration(p.DelayMs) * time.Millisecond)
	conn, err := net.DialTimeout("tcp", fmt.Sprintf("127.0.0.1:%d", port), time.Second)
	if err != nil {
		res.err = "dial: " + err.Error() // the listener is already closed: nothing can reach the transfer
		res.closed = true
		return res
	}
	defer conn.Close()
	if p.Kind == "early_right_greeting" || p.Kind == "split_greeting" {
		// connected (and accepted) while nobody has been adopted yet, silent until the genuine connection has been adopted, and only
		// then presenting the right greeting: a second connection, which must never be used
		select {
		case <-adopted:
		case <-time.After(5 * time.Second):
			res.err = "the genuine connection was never adopted: greeting not sent"
			res.closed = true
			return res
		}
		time.Sleep(20 * time.Millisecond)
	}
	hello, _ := getHelloConstant(uid, port)
	switch p.Kind {
	case "wrong_greeting":
		conn.Write([]byte("GET / HTTP/1.0\r\n\r\n"))
	case "wrong_id":
		conn.Write([]byte(fmt.Sprintf("::TRZSZ::CLIENT::HELLO::%s:%d", "99999999999", port)))
	case "wrong_port_text":
		conn.Write([]byte(fmt.Sprintf("::TRZSZ::CLIENT::HELLO::%s:%d", uid[:len(uid)-2], port+1)))
	case "prefix_only":
		conn.Write([]byte("::TRZSZ::CLIENT::HELLO::"))
	case "greeting_plus":
		conn.Write([]byte(hello + "\n#fail:x\n"))
	case "right_greeting", "early_right_greeting":
		conn.Write([]byte(hello))
		res.sentGood = true
	case "split_greeting":
		// two writes are usually two reads (then the first read is not the greeting), but a server that gets round to reading late
		// sees them as one: this is a right greeting then. Sent only after the genuine adoption, so that either way the connection
		// must never be used: at most the greeting answer comes back.
		conn.Write([]byte(hello[:10]))
		time.Sleep(150 * time.Millisecond)
		conn.Write([]byte(hello[10:]))
		res.sentGood = true
	case "silence":
	case "flood":
		conn.Write(bytes.Repeat([]byte("A"), 1<<20))
	}
	if p.Fail {
		time.Sleep(20 * time.Millisecond)
		for i := 0; i < 3; i++ {
			conn.Write(failLine)
		}
	}
	// what does the other end say?
	conn.SetReadDeadline(time.Now().Add(2500 * time.Millisecond))
	buf := make([]byte, 4096)
	for {
		n, err := conn.Read(buf)
		res.got = append(res.got, buf[:n]...)
		if err != nil {
			if ne, ok := err.(net.Error); ok && ne.Timeout() {
				res.closed = false
			} else {
				res.closed = true
			}
			break
		}
		if len(res.got) > 1<<16 {
			break
		}
	}
	return res
}

func vfC17Run(cs vfC17Case, res *vfC17Stats) string {
	sc := cs.Scen
	e, err := vfScenSetup(sc)
	if err != nil {
		return "setup: " + err.Error()
	}
	defer e.cleanup()
	vfCurCase("TestVF_C17", cs)
	opts := sc.Sess
	opts.Tunnel = true
	opts.Relays = cs.Relays
	opts.RelayDialDelayMs = cs.RelayLate
	opts.FirstWriteDelayMs = cs.ActDelay
	sess := vfNewSession(opts)
	defer sess.close()
	// the trigger tells id and port
	var mu sync.Mutex
	var uid string
	port := 0
	seen := make(chan struct{})
	var once sync.Once
	failLine := vfEncodeLine("fail", []byte("injected by a foreign connection"), "\n")
	var wg sync.WaitGroup
	results := make([]vfProbeRes, len(cs.Probes))
	adopted := make(chan struct{})
	var adoptOnce sync.Once
	sess.s2c.onMsg = func(m vfMsg, before bool) {
		if before || m.Idx > 3 {
			return
		}
		tr := sess.s2c.transcript()
		if mm := vfTriggerRe.FindSubmatch(tr); mm != nil {
			once.Do(func() {
				mu.Lock()
				uid = string(mm[1])
				port, _ = strconv.Atoi(string(mm[2]))
				mu.Unlock()
				close(seen)
				for i, p := range cs.Probes {
					wg.Add(1)
					go func(i int, p vfProbe) {
						defer wg.Done()
						results[i] = vfRunProbe(p, uid, port, failLine, adopted)
					}(i, p)
				}
			})
		}
	}
	var impostor *vfImpostor
	if cs.Connector == "impostor" {
		forged := append(vfEncodeLine("fail", []byte("forged by the impostor"), "\n"), []byte("#CFG:eJyrVspJzEtXslJQKqhU0lFQSipNK86sSgUKGBqYWJgaWJiZGtQCANPpC7c=\n#SUCC:0\n")...)
		impostor, err = vfNewImpostor(cs.Impostor, func() (string, int) {
			select {
			case <-seen:
			case <-time.After(3 * time.Second):
			}
			mu.Lock()
			defer mu.Unlock()
			return uid, port
		}, forged)
		if err != nil {
			return "setup: " + err.Error()
		}
		defer impostor.close()
	}
	// the genuine client's connector
	inner := *sess.filter.tunnelConnector.Load()
	dialed := 0
	sess.filter.SetTunnelConnector(func(p int) net.Conn {
		mu.Lock()
		dialed++
		mu.Unlock()
		switch cs.Connector {
		case "refuses":
			return nil
		case "impostor":
			time.Sleep(time.Duration(cs.GenuineMs) * time.Millisecond)
			return impostor.dial()
		case "late":
			time.Sleep(time.Duration(cs.LateMs) * time.Millisecond)
		case "closed":
			c := inner(p)
			if c != nil {
				c.Close()
			}
			return c
		}
		time.Sleep(time.Duration(cs.GenuineMs) * time.Millisecond)
		return inner(p)
	})
	junkDone := false
	var holdOnce sync.Once
	sess.tunC2S.onMsg = func(m vfMsg, before bool) {
		adoptOnce.Do(func() { close(adopted) }) // the client writes protocol lines on its tunnel connection: it was adopted
		if cs.HoldCfg && before && m.Idx == 0 {
			// the server is held (SIGSTOP) just before the action goes out over the tunnel: the relays sit between the action
			// and the configuration for 200 ms, and in that time the shell prints something in-band (a background job's output).
			// With the tunnel in use that is ordinary terminal output - not part of anybody's handshake.
			holdOnce.Do(func() {
				sess.signalServer(syscall.SIGSTOP) // before the action goes out: the server cannot answer until it is continued
				go func() {
					time.Sleep(100 * time.Millisecond)
					sess.shellOutput([]byte("[1]+  Done   sleep 5\r\njob output line\n"))
					time.Sleep(110 * time.Millisecond)
					sess.signalServer(syscall.SIGCONT)
				}()
			})
		}
	}
	if cs.Junk {
		// in-band junk "after the tunnel is in use": once the server's first line has come back over the tunnel, every hop (the
		// server, a relay, the client) demonstrably reads from its tunnel connection. Earlier than that a hop that has not yet
		// processed the action still takes in-band bytes for what they are - input.
		sess.tunS2C.onMsg = func(m vfMsg, before bool) {
			if before || junkDone {
				return
			}
			junkDone = true
			go func() {
				time.Sleep(30 * time.Millisecond)
				sess.shellOutput(failLine)                                      // in-band towards the client
				sess.c2s.feed(append([]byte("\x03"), failLine...))               // in-band towards the server
				sess.shellOutput([]byte("#SUCC:0\n#DATA:3\nabc#EXIT:eJwDAAAAAAE=\n")) // more in-band junk
			}()
		}
	}
	chatterStop := make(chan struct{})
	var chatterOnce sync.Once
	if cs.Chatter {
		// a background job keeps printing and the user keeps hitting keys while the transfer runs over the tunnel - and while it
		// ends: in-band bytes are ignored, so they can neither disturb it nor keep its clean-up (which waits for the input to
		// fall silent) from finishing
		inner := sess.tunS2C.onMsg
		sess.tunS2C.onMsg = func(m vfMsg, before bool) {
			if inner != nil {
				inner(m, before)
			}
			if before {
				return
			}
			chatterOnce.Do(func() {
				go func() {
					limit := time.After(25 * time.Second)
					for i := 0; ; i++ {
						select {
						case <-chatterStop:
							return
						case <-limit:
							return
						case <-time.After(60 * time.Millisecond):
						}
						sess.shellOutput([]byte(fmt.Sprintf("job line %d\r\n", i)))
						sess.c2s.feed([]byte("k"))
					}
				}()
			})
		}
	}
	run, err := vfStartTransfer(sess, sc.Cfg, e.paths, e.dest)
	if err != nil {
		close(chatterStop)
		return "cannot start: " + err.Error()
	}
	if cs.Chatter {
		run.finish(22 * time.Second)
	} else {
		run.finish(60 * time.Second)
	}
	close(chatterStop)
	done := make(chan struct{})
	go func() { wg.Wait(); close(done) }()
	select {
	case <-done:
	case <-time.After(10 * time.Second):
		return "a probe connection is still blocked"
	}
	if !run.serverEnded || !run.clientIdle {
		return "transfer did not end: " + run.describe()
	}
	if !run.serverSuccess() || !run.clientSuccess() {
		return fmt.Sprintf("foreign connections / connector %q made the transfer fail: %s", cs.Connector, run.describe())
	}
	collide := sc.Pre == "collide" && !sc.Cfg.Overwrite
	same, _ := e.identicalFiles(func(rel string) string {
		if !collide {
			return rel
		}
		parts := strings.SplitN(rel, string(filepath.Separator), 2)
		parts[0] += ".0"
		return filepath.Join(parts...)
	})
	if same != len(e.fileRel) {
		return fmt.Sprintf("transfer reported success but only %d of %d files are identical: %s", same, len(e.fileRel), run.describe())
	}
	if impostor != nil {
		if after := impostor.close(); len(after) > 0 {
			return fmt.Sprintf("the client's connector reached something that answered with the wrong greeting (%s), yet the client went on to use that connection and sent it %s", cs.Impostor, vfShort(after, 120))
		}
	}
	tunnelUsed := len(sess.tunC2S.messages()) > 0
	res.tunnelUsed = tunnelUsed
	_, serverHello := getHelloConstant(uid, port)
	for i, pr := range results {
		switch {
		case pr.err != "":
			res.lateProbes++
		case !pr.sentGood:
			if len(pr.got) > 0 {
				return fmt.Sprintf("probe %d (%s) presented a wrong greeting and was answered with %s", i, pr.kind, vfShort(pr.got, 80))
			}
			if !pr.closed && pr.kind != "silence" && pr.kind != "prefix_only_never" {
				return fmt.Sprintf("probe %d (%s) presented a wrong greeting and was not closed within 2.5 s", i, pr.kind)
			}
		default:
			// a second connection with the right greeting: never more than the greeting answer, never protocol lines
			rest := bytes.TrimPrefix(pr.got, []byte(serverHello))
			if len(rest) > 0 && tunnelUsed {
				return fmt.Sprintf("probe %d (right greeting, not the adopted connection) received protocol bytes: %s", i, vfShort(rest, 80))
			}
		}
	}
	// once the tunnel is in use the client writes nothing in-band
	if tunnelUsed {
		for _, m := range sess.c2s.messages() {
			if m.Typ != "?" && m.Typ != "fail" { // the injected junk itself is fed through the same link
				return fmt.Sprintf("the client wrote a %s line in-band although the tunnel is in use", m.Typ)
			}
		}
	} else if cs.Connector == "immediate" && cs.GenuineMs < 300 && res.lateProbes == len(results) && cs.RelayLate < 700 {
		return "no tunnel was established although the connector worked: " + run.describe()
	}
	return ""
}

type vfC17Stats struct {
	tunnelUsed bool
	lateProbes int
}

func vfGenC17(rt *rapid.T) vfC17Case {
	var cs vfC17Case
	scens := vfScenarios()
	cs.Scen = scens[rapid.SampledFrom([]int{0, 2, 3, 4}).Draw(rt, "scenario")]
	cs.Scen.Size = 20000
	n := rapid.IntRange(0, 4).Draw(rt, "nprobes")
	for i := 0; i < n; i++ {
		cs.Probes = append(cs.Probes, vfProbe{
			Kind:    rapid.SampledFrom([]string{"wrong_greeting", "wrong_id", "wrong_port_text", "prefix_only", "greeting_plus", "right_greeting", "early_right_greeting", "early_right_greeting", "split_greeting", "silence", "flood"}).Draw(rt, "kind"),
			DelayMs: rapid.SampledFrom([]int{0, 0, 5, 20, 60, 200}).Draw(rt, "delay"),
			Fail:    rapid.Bool().Draw(rt, "fail"),
		})
	}
	cs.Connector = rapid.SampledFrom([]string{"immediate", "immediate", "immediate", "refuses", "late", "closed", "impostor", "impostor"}).Draw(rt, "connector")
	if cs.Connector == "impostor" {
		cs.Impostor = rapid.SampledFrom([]string{"minus_last_digit", "no_id_no_port", "one_colon", "wrong_id", "wrong_port", "plus_trailing", "client_greeting_echo", "lowercase", "garbage", "close_at_once"}).Draw(rt, "impostor")
	}
	cs.LateMs = rapid.SampledFrom([]int{500, 900, 1100, 1500}).Draw(rt, "late")
	cs.GenuineMs = rapid.SampledFrom([]int{0, 0, 10, 50, 150}).Draw(rt, "genuine")
	cs.Junk = rapid.Bool().Draw(rt, "junk")
	cs.Relays = rapid.SampledFrom([]int{0, 0, 1}).Draw(rt, "relays")
	if cs.Connector == "impostor" {
		cs.Relays = 0 // id and port are read off the wire next to the client
	}
	if cs.Relays > 0 {
		cs.RelayLate = rapid.SampledFrom([]int{0, 0, 300, 1200, 1600}).Draw(rt, "relaylate")
	}
	cs.ActDelay = rapid.SampledFrom([]int{0, 0, 0, 700, 2500}).Draw(rt, "actdelay")
	cs.HoldCfg = cs.Connector == "immediate" && cs.Relays > 0 && rapid.Bool().Draw(rt, "holdcfg")
	cs.Chatter = rapid.IntRange(0, 2).Draw(rt, "chatter") == 0
	return cs
}

func TestVF_C17(t *testing.T) {
	c := vfNewCollector("C17", "TestVF_C17")
	vfCheck(t, c, vfGenC17, func(cs vfC17Case) string {
		var st vfC17Stats
		msg := vfC17Run(cs, &st)
		if msg != "" && (strings.Contains(msg, "made the transfer fail") || strings.Contains(msg, "did not end") || strings.Contains(msg, "no tunnel was established")) {
			// verdicts that depend on timeouts and grace periods of real processes must reproduce
			var st2 vfC17Stats
			if m2 := vfC17Run(cs, &st2); m2 == "" {
				c.inconclusive("not_reproduced")
				msg = ""
			}
		}
		labels := []string{"scenario_" + cs.Scen.Name, "connector_" + cs.Connector, fmt.Sprintf("relays_%d", cs.Relays)}
		if cs.Impostor != "" {
			labels = append(labels, "impostor_"+cs.Impostor)
		}
		for _, p := range cs.Probes {
			labels = append(labels, "probe_"+p.Kind)
		}
		if st.tunnelUsed {
			labels = append(labels, "tunnel_used")
		} else {
			labels = append(labels, "fell_back_in_band")
		}
		if cs.Junk {
			labels = append(labels, "in_band_junk")
		}
		if cs.ActDelay > 0 {
			labels = append(labels, fmt.Sprintf("act_delayed_%d", cs.ActDelay))
		}
		if cs.HoldCfg {
			labels = append(labels, "shell_output_between_action_and_configuration")
		}
		if cs.RelayLate > 0 {
			labels = append(labels, fmt.Sprintf("relay_connector_late_%d", cs.RelayLate))
		}
		if cs.Chatter && st.tunnelUsed {
			labels = append(labels, "in_band_chatter_until_the_end")
		}
		c.eval(cs, len(cs.Probes) > 0 || cs.Connector != "immediate" || cs.Junk || cs.RelayLate > 0 || cs.Chatter, labels...)
		return msg
	})
}

// ---------------------------------------------------------------------------------
// a transfer that went to the background (-f, over its tunnel) is still running while the next transfer starts: the earlier
// transfer's tunnel is not the authenticated connection of the new one - neither transfer may disturb the other

type vfC17OverlapCase struct {
	Relays  int  `json:"relays"`
	UploadA bool `json:"upload_a"` // the background transfer
	UploadB bool `json:"upload_b"` // the one started while it runs
}

type vfC17OverlapRes struct {
	background bool // A really went to the background
	overlapped bool // A was still running when B had ended
}

func vfC17OverlapRun(cs vfC17OverlapCase, res *vfC17OverlapRes) string {
	base, err := os.MkdirTemp("", "vfc17o")
	if err != nil {
		return "mkdtemp: " + err.Error()
	}
	defer os.RemoveAll(base)
	src := filepath.Join(base, "src")
	os.MkdirAll(src, 0755)
	vfWriteFile(filepath.Join(src, "small.bin"), vfKindNoise, 5, 3000)
	vfWriteFile(filepath.Join(src, "big.bin"), vfKindNoise, 6, 3<<20)
	bigA := filepath.Join(base, "srcA", "bg.bin")
	os.MkdirAll(filepath.Dir(bigA), 0755)
	vfWriteFile(bigA, vfKindNoise, 7, 20<<20)
	destA := filepath.Join(base, "destA")
	os.MkdirAll(destA, 0755)
	vfCurCase("TestVF_C17Overlap", cs)
	// the client's action for the second transfer comes 300 ms late (a user choosing a directory): the relays are in their
	// handshake for that long while the background transfer's traffic keeps flowing
	sess := vfNewSession(vfSessOpts{Relays: cs.Relays, Tunnel: true, FirstWriteDelayMs: 300})
	defer sess.close()
	sess.slowFirst.done.Store(true) // not for the first transfer
	sess.bgDelay = time.Millisecond
	sess.tunC2S.throttle, sess.tunS2C.throttle = 2*time.Millisecond, 2*time.Millisecond
	cfgA := vfPairCfg{Upload: cs.UploadA, Timeout: 10, Overwrite: true, Fork: true, Bufsize: 8192}
	if _, err := vfStartTransfer(sess, cfgA, []string{bigA}, destA); err != nil {
		return "cannot start the background transfer: " + err.Error()
	}
	deadline := time.Now().Add(15 * time.Second)
	for !bytes.Contains(sess.serverRaw(), []byte("Switch to transfer in background.")) {
		if time.Now().After(deadline) || !sess.serverAlive() {
			return "" // no tunnel came up or the transfer was over at once: nothing went to the background
		}
		time.Sleep(2 * time.Millisecond)
	}
	if !sess.waitClientIdle(5 * time.Second) {
		return "the server switched to the background but the client never freed the terminal"
	}
	res.background = true
	hA := sess.detachServer()
	sess.serverPortUnreachable.Store(true)
	sess.tunC2S.throttle, sess.tunS2C.throttle = 0, 0
	sess.slowFirst.done.Store(false)
	time.Sleep(100 * time.Millisecond)
	// two more transfers beside it: the first one passes a relay that still counts the background transfer as its own, its end
	// releases the relay, and the second one gets a handshake of its own from the relay - while the background traffic flows on
	for k := 0; k < 2; k++ {
		sess.slowFirst.done.Store(false)
		m := vfC05Transfer(sess, vfC05Act{Kind: "transfer", Outcome: "succeeded", Upload: cs.UploadB != (k == 1)}, src, base)
		still := false
		select {
		case <-hA.done:
		default:
			still = true
		}
		if k == 1 {
			res.overlapped = still
		}
		if m != "" {
			return fmt.Sprintf("transfer %d started while an earlier one was running in the background (still running afterwards: %v): %s", k+1, still, m)
		}
	}
	if !hA.wait(90 * time.Second) {
		return "the background transfer never ended after another transfer had run beside it"
	}
	got, err := os.ReadFile(filepath.Join(destA, "bg.bin"))
	want, _ := os.ReadFile(bigA)
	if err != nil || !bytes.Equal(got, want) {
		return fmt.Sprintf("the background transfer's file is not identical after another transfer had run beside it (%v, %d of %d bytes, first difference at %d); its output: %s",
			err, len(got), len(want), vfLCP(got, want), vfShort(hA.output(), 300))
	}
	return ""
}

func TestVF_C17Overlap(t *testing.T) {
	c := vfNewCollector("C17", "TestVF_C17Overlap")
	vfCheck(t, c, func(rt *rapid.T) vfC17OverlapCase {
		return vfC17OverlapCase{Relays: rapid.SampledFrom([]int{0, 1, 1, 2}).Draw(rt, "relays"), UploadA: rapid.Bool().Draw(rt, "upload_a"), UploadB: rapid.Bool().Draw(rt, "upload_b")}
	}, func(cs vfC17OverlapCase) string {
		var res vfC17OverlapRes
		msg := vfC17OverlapRun(cs, &res)
		if msg != "" {
			var r2 vfC17OverlapRes
			if m2 := vfC17OverlapRun(cs, &r2); m2 == "" { // real processes and timeouts: a verdict must reproduce
				c.inconclusive("not_reproduced")
				msg = ""
			}
		}
		labels := []string{"background_transfer_beside_another", fmt.Sprintf("relay_hops_%d", cs.Relays)}
		if res.background {
			labels = append(labels, "went_to_background")
		}
		if res.overlapped {
			labels = append(labels, "still_running_when_the_second_ended")
		}
		c.eval(cs, res.overlapped, labels...)
		return msg
	})
}
