//go:build verif

// C04 — escape coding is reversible and keeps protected bytes off the wire (unit level; the wire-level
// part runs on the pair engine in zz_verif_pair_test.go).

package trzsz

import (
	"bytes"
	"encoding/json"
	"fmt"
	"io"
	"testing"

	"pgregory.net/rapid"
)

type vfTablePair struct {
	Src  byte `json:"s"`
	Code byte `json:"c"`
}

type vfC04Case struct {
	Builtin  int           `json:"builtin"` // 0: generated table, 1: default table, 2: escape-all table
	Table    []vfTablePair `json:"table,omitempty"`
	Data     []byte        `json:"data"`
	Cuts     []int         `json:"cuts"`     // cut positions in the escaped (or compressed+escaped) stream
	ReadSz   []int         `json:"readsz"`   // consumer buffer sizes, cycled
	WriteSz  []int         `json:"writesz"`  // producer write sizes, cycled
	Compress bool          `json:"compress"` // zstd in front of the escaper
	BadPair  int           `json:"badpair"`  // >=0: also inject an undefined pair at this position of the escaped stream
	BadCode  byte          `json:"badcode"`
}

func vfLatin1(b ...byte) unicode {
	r := make([]rune, len(b))
	for i, c := range b {
		r[i] = rune(c)
	}
	return unicode(string(r))
}

// vfBuildTable goes through the announced (JSON) form, like a client receiving a CFG line.
func vfBuildTable(cs *vfC04Case) (*escapeTable, map[byte]bool, map[byte]bool, error) {
	var js []byte
	var err error
	switch cs.Builtin {
	case 1:
		js, err = json.Marshal(getEscapeChars(false))
	case 2:
		js, err = json.Marshal(getEscapeChars(true))
	default:
		// the announced form as any peer implementation would serialise it: JSON strings of Latin-1 code points
		chars := [][]string{}
		for _, p := range cs.Table {
			chars = append(chars, []string{string(vfLatin1(p.Src)), string(vfLatin1(escapeLeaderByte, p.Code))})
		}
		js, err = json.Marshal(chars)
	}
	if err != nil {
		return nil, nil, nil, err
	}
	var table escapeTable
	if err := json.Unmarshal(js, &table); err != nil {
		return nil, nil, nil, fmt.Errorf("table %s rejected: %v", js, err)
	}
	// protected set and code set derived independently from the announced JSON
	var raw [][]string
	if err := json.Unmarshal(js, &raw); err != nil {
		return nil, nil, nil, err
	}
	protected := map[byte]bool{}
	codes := map[byte]bool{}
	for _, pr := range raw {
		s := []rune(pr[0])
		c := []rune(pr[1])
		if byte(s[0]) != escapeLeaderByte {
			protected[byte(s[0])] = true
		}
		codes[byte(c[1])] = true
	}
	return &table, protected, codes, nil
}

type vfSink struct{ bytes.Buffer }

func (s *vfSink) Close() error { return nil }

type vfChunkReader struct {
	chunks [][]byte
}

func (r *vfChunkReader) Read(p []byte) (int, error) {
	if len(r.chunks) == 0 {
		return 0, io.EOF
	}
	n := copy(p, r.chunks[0])
	if n < len(r.chunks[0]) {
		r.chunks[0] = r.chunks[0][n:]
	} else {
		r.chunks = r.chunks[1:]
	}
	return n, nil
}

// The one-shot forms call escapeData / unescapeData directly when zz_verif_c04_opt_test.go could be compiled against the tree
// (it is left out by the driver when their signatures have changed); otherwise they go through the streaming writer / reader
// with one write and one big read, which is how the transfer code reaches them.
var vfEscapeDirect func(data []byte, table *escapeTable) []byte
var vfUnescapeDirect func(data []byte, table *escapeTable) ([]byte, []byte, error)

func vfEscOne(data []byte, table *escapeTable) []byte {
	if vfEscapeDirect != nil {
		return vfEscapeDirect(data, table)
	}
	sink := &vfSink{}
	w := newEscapeWriter(table, sink)
	if len(data) > 0 {
		writeAll(w, data)
	}
	w.Close()
	return append([]byte(nil), sink.Bytes()...)
}

func vfUnescOne(data []byte, table *escapeTable) ([]byte, []byte, error) {
	if vfUnescapeDirect != nil {
		return vfUnescapeDirect(data, table)
	}
	r := newEscapeReader(table, &vfChunkReader{chunks: [][]byte{data}})
	defer r.Close()
	var out []byte
	buf := make([]byte, 2*len(data)+64)
	for {
		n, err := r.Read(buf)
		out = append(out, buf[:n]...)
		if err == io.EOF {
			return out, nil, nil
		}
		if err != nil {
			return out, nil, err
		}
	}
}

func vfC04Run(cs vfC04Case) (msg string, nontrivial bool) {
	table, protected, codes, err := vfBuildTable(&cs)
	if err != nil {
		return "well-formed table: " + err.Error(), false
	}
	hasProtected := false
	for _, b := range cs.Data {
		if protected[b] || b == escapeLeaderByte {
			hasProtected = true
			break
		}
	}
	// (a) one-shot round trip
	esc := vfEscOne(cs.Data, table)
	for i, b := range esc {
		if protected[b] {
			return fmt.Sprintf("escapeData output contains protected byte 0x%02x at %d", b, i), hasProtected
		}
	}
	back, rem, err := vfUnescOne(esc, table)
	if err != nil {
		return "unescapeData(escapeData(x)) error: " + err.Error(), hasProtected
	}
	if len(rem) != 0 || !bytes.Equal(back, cs.Data) {
		return fmt.Sprintf("one-shot round trip differs: got %s rem %s want %s", vfShort(back, 40), vfShort(rem, 10), vfShort(cs.Data, 40)), hasProtected
	}
	// (b) streaming: producer
	sink := &vfSink{}
	var w writeCloseFlusher = newEscapeWriter(table, sink)
	if cs.Compress {
		zw, err := newZstdWriter(w)
		if err != nil {
			return "newZstdWriter: " + err.Error(), false
		}
		w = zw
	}
	pos, k := 0, 0
	var scratch []byte // one reused write buffer, overwritten after every Write (the writer must not keep the slice)
	for pos < len(cs.Data) {
		sz := len(cs.Data) - pos
		if len(cs.WriteSz) > 0 {
			if s := cs.WriteSz[k%len(cs.WriteSz)]; s < sz {
				sz = s
			}
			k++
		}
		if err := vfWriteReused(w, cs.Data[pos:pos+sz], &scratch); err != nil {
			return "producer write: " + err.Error(), hasProtected
		}
		pos += sz
	}
	if err := w.Close(); err != nil {
		return "producer close: " + err.Error(), hasProtected
	}
	stream := append([]byte(nil), sink.Bytes()...)
	for i, b := range stream {
		if protected[b] {
			return fmt.Sprintf("escaped stream (compress=%v) contains protected byte 0x%02x at %d", cs.Compress, b, i), hasProtected
		}
	}
	// cuts inside a pair?
	chunks := vfChunks(stream, cs.Cuts)
	cutInPair := false
	{
		// walk pairs
		inPairAt := map[int]bool{}
		for i := 0; i < len(stream); i++ {
			if stream[i] == escapeLeaderByte && i+1 < len(stream) {
				inPairAt[i+1] = true
				i++
			}
		}
		off := 0
		for _, ch := range chunks[:maxInt(len(chunks)-1, 0)] {
			off += len(ch)
			if inPairAt[off] {
				cutInPair = true
			}
		}
	}
	// chunks larger than the reader's 32 KiB buffer are delivered piecewise, the way recvDataReader hands a big DATA block
	// to the decoder: a refill can then fill the buffer completely, with a leader as its very last byte
	var r readCloser = newEscapeReader(table, &vfChunkReader{chunks: chunks})
	if cs.Compress {
		zr, err := newZstdReader(r)
		if err != nil {
			return "newZstdReader: " + err.Error(), false
		}
		r = zr
	}
	var out []byte
	k = 0
	for {
		sz := 4096
		if len(cs.ReadSz) > 0 {
			sz = cs.ReadSz[k%len(cs.ReadSz)]
			k++
		}
		buf := make([]byte, sz)
		n, err := r.Read(buf)
		out = append(out, buf[:n]...)
		if err == io.EOF {
			break
		}
		if err != nil {
			r.Close()
			return fmt.Sprintf("streaming decode error after %d bytes: %v", len(out), err), hasProtected && cutInPair
		}
		if len(out) > len(cs.Data)+8 {
			break
		}
	}
	r.Close()
	if !bytes.Equal(out, cs.Data) {
		return fmt.Sprintf("streaming round trip differs (compress=%v, %d chunks): got %s want %s", cs.Compress, len(chunks),
			vfShort(out, 40), vfShort(cs.Data, 40)), hasProtected && cutInPair
	}
	// (d) undefined pair is rejected
	if cs.BadPair >= 0 && !codes[cs.BadCode] {
		// insert at a pair boundary of the escaped data
		at := 0
		cnt := 0
		for i := 0; i < len(esc); i++ {
			if cnt == cs.BadPair {
				at = i
				break
			}
			if esc[i] == escapeLeaderByte {
				i++
			}
			cnt++
			at = i + 1
		}
		if at > len(esc) {
			at = len(esc)
		}
		bad := append(append(append([]byte(nil), esc[:at]...), escapeLeaderByte, cs.BadCode), esc[at:]...)
		if got, _, err := vfUnescOne(bad, table); err == nil {
			return fmt.Sprintf("unescapeData accepted undefined pair ee %02x (decoded to %s)", cs.BadCode, vfShort(got, 40)), true
		}
		rr := newEscapeReader(table, &vfChunkReader{chunks: vfChunks(bad, cs.Cuts)})
		var derr error
		total := 0
		for i := 0; i < len(bad)+4; i++ {
			buf := make([]byte, 16)
			n, err := rr.Read(buf)
			total += n
			if err != nil {
				derr = err
				break
			}
		}
		if derr == nil || derr == io.EOF {
			return fmt.Sprintf("escapeReader decoded a stream with undefined pair ee %02x without an error (err=%v, %d bytes)", cs.BadCode, derr, total), true
		}
	}
	return "", hasProtected && (cutInPair || cs.Compress)
}

func maxInt(a, b int) int {
	if a > b {
		return a
	}
	return b
}

func vfGenC04(rt *rapid.T) vfC04Case {
	var cs vfC04Case
	cs.Builtin = rapid.IntRange(0, 2).Draw(rt, "builtin")
	var srcs []byte
	if cs.Builtin == 0 {
		n := rapid.IntRange(0, 39).Draw(rt, "npairs")
		used := map[byte]bool{escapeLeaderByte: true}
		srcs = []byte{escapeLeaderByte}
		for i := 0; i < n; i++ {
			b := rapid.Byte().Draw(rt, "src")
			if !used[b] {
				used[b] = true
				srcs = append(srcs, b)
			}
		}
		// codes: distinct, none a protected byte (the leader may code itself)
		usedCode := map[byte]bool{}
		for _, s := range srcs {
			var c byte
			for tries := 0; ; tries++ {
				c = rapid.Byte().Draw(rt, "code")
				if tries > 50 {
					// deterministic fallback
					for x := 0; x < 256; x++ {
						if !usedCode[byte(x)] && (!used[byte(x)] || byte(x) == escapeLeaderByte) {
							c = byte(x)
							break
						}
					}
				}
				if !usedCode[c] && (!used[c] || c == escapeLeaderByte) {
					break
				}
			}
			usedCode[c] = true
			cs.Table = append(cs.Table, vfTablePair{Src: s, Code: c})
		}
	} else {
		srcs = []byte{0xee, 0x7e, 0x02, 0x0d, 0x10, 0x11, 0x13, 0x18, 0x1b, 0x1d, 0x8d, 0x90, 0x91, 0x93, 0x9d}
	}
	kind := rapid.IntRange(0, 3).Draw(rt, "datakind")
	n := rapid.IntRange(0, 300).Draw(rt, "n")
	if kind == 3 {
		n = rapid.IntRange(300, 200000).Draw(rt, "nbig")
	}
	cs.Data = make([]byte, n)
	seed := rapid.Uint64().Draw(rt, "seed")
	x := seed | 1
	for i := range cs.Data {
		x ^= x << 13
		x ^= x >> 7
		x ^= x << 17
		switch {
		case kind == 0: // uniform
			cs.Data[i] = byte(x >> 32)
		case kind == 1 || kind == 3: // dense in protected bytes / leader
			if (x>>20)%3 != 0 {
				cs.Data[i] = srcs[int((x>>40)%uint64(len(srcs)))]
			} else {
				cs.Data[i] = byte(x >> 32)
			}
		default: // compressible text with some protected bytes
			cs.Data[i] = "the quick brown fox ~\x1b\xee"[int((x>>33)%23)]
		}
	}
	if n <= 300 && n > 0 && rapid.Bool().Draw(rt, "tweak") {
		// let rapid place a few explicit bytes (shrinks well)
		m := rapid.IntRange(1, minInt(8, n)).Draw(rt, "m")
		for i := 0; i < m; i++ {
			cs.Data[rapid.IntRange(0, n-1).Draw(rt, "pos")] = rapid.Byte().Draw(rt, "val")
		}
	}
	cs.Compress = rapid.IntRange(0, 3).Draw(rt, "compress") == 0
	ncuts := rapid.IntRange(0, 30).Draw(rt, "ncuts")
	est := 2*n + 64
	set := map[int]bool{}
	for i := 0; i < ncuts; i++ {
		set[rapid.IntRange(1, est).Draw(rt, "cut")] = true
	}
	if rapid.IntRange(0, 4).Draw(rt, "everybyte") == 0 && n <= 300 {
		for i := 1; i < est; i++ {
			set[i] = true
		}
	}
	for i := 1; i <= est; i++ {
		if set[i] {
			cs.Cuts = append(cs.Cuts, i)
		}
	}
	cs.ReadSz = rapid.SliceOfN(rapid.SampledFrom([]int{1, 2, 3, 5, 16, 100, 4096, 32768, 40000}), 1, 4).Draw(rt, "readsz")
	cs.WriteSz = rapid.SliceOfN(rapid.SampledFrom([]int{1, 2, 7, 64, 1000, 32768, 100000}), 0, 3).Draw(rt, "writesz")
	cs.BadPair = -1
	if rapid.IntRange(0, 2).Draw(rt, "bad") == 0 {
		cs.BadPair = rapid.IntRange(0, n).Draw(rt, "badpos")
		cs.BadCode = rapid.Byte().Draw(rt, "badcode")
	}
	return cs
}

func TestVF_C04(t *testing.T) {
	c := vfNewCollector("C04", "TestVF_C04")
	vfCheck(t, c, vfGenC04, func(cs vfC04Case) string {
		msg, nt := vfC04Run(cs)
		l1 := []string{"generated_table", "default_table", "escape_all_table"}[cs.Builtin]
		l2 := "raw"
		if cs.Compress {
			l2 = "zstd_in_front"
		}
		l3 := ""
		if cs.BadPair >= 0 {
			l3 = "undefined_pair_injected"
		}
		c.eval(cs, nt, l1, l2, l3)
		return msg
	})
}

// TestVF_C04AllBytes: every single byte value and every pair of bytes through both built-in tables (exhaustive).
func TestVF_C04AllBytes(t *testing.T) {
	c := vfNewCollector("C04", "TestVF_C04AllBytes")
	if vfReplayOnly() {
		return
	}
	var evals, nontriv int64
	for builtin := 1; builtin <= 2; builtin++ {
		for a := 0; a < 256; a++ {
			for b := -1; b < 256; b++ {
				data := []byte{byte(a)}
				if b >= 0 {
					data = append(data, byte(b))
				}
				cs := vfC04Case{Builtin: builtin, Data: data, Cuts: []int{1, 2, 3}, ReadSz: []int{1}, BadPair: -1}
				msg, nt := vfC04Run(cs)
				evals++
				if nt {
					nontriv++
				}
				if msg != "" {
					c.violation("allbytes", cs, msg)
					c.evalEnum(evals, nontriv, "all_byte_pairs")
					t.Fatalf("%s", msg)
				}
			}
		}
	}
	c.addSample(map[string]any{"enumerated": "both built-in tables x all 1- and 2-byte payloads, cut at every position, 1-byte reads"})
	c.evalEnum(evals, nontriv, "all_byte_pairs")
}
