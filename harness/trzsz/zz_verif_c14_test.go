//go:build verif

// C14 — a relay only narrows what the ends negotiate, and recovers after every transfer.

package trzsz

import (
	"bytes"
	"encoding/json"
	"fmt"
	"os"
	"path/filepath"
	"reflect"
	"testing"
	"time"

	"pgregory.net/rapid"
)

// vfRelayRig: an in-process relay between a scripted client and a scripted server.
type vfRelayRig struct {
	relay  *TrzszRelay
	cliIn  *vfFeedReader
	cliOut *vfRecorder
	srvIn  *vfRecorder
	srvOut *vfFeedReader
}

func newVfRelayRig(tmux bool, paneWidth int32) *vfRelayRig {
	g := &vfRelayRig{cliIn: newVfFeedReader(), cliOut: &vfRecorder{}, srvIn: &vfRecorder{}, srvOut: newVfFeedReader()}
	g.relay = NewTrzszRelay(g.cliIn, g.cliOut, g.srvIn, g.srvOut, TrzszOptions{})
	if tmux {
		// "the relay runs inside tmux": set right after construction, before any traffic
		g.relay.tmuxMode = tmuxNormalMode
		g.relay.tmuxPaneWidth = paneWidth
	}
	return g
}

// close ends the relay's pump goroutines (they stop at EOF), so that thousands of cases per process do not pile up.
func (g *vfRelayRig) close() {
	g.cliIn.close()
	g.srvOut.close()
}

func vfWaitFor(rec *vfRecorder, from int, marker string, limit time.Duration) (int, bool) {
	deadline := time.Now().Add(limit)
	for {
		b := rec.bytes()
		if from <= len(b) {
			if i := bytes.Index(b[from:], []byte(marker)); i >= 0 {
				// the whole line
				if j := bytes.IndexByte(b[from+i:], '\n'); j >= 0 {
					return from + i, true
				}
			}
		}
		if time.Now().After(deadline) {
			return 0, false
		}
		time.Sleep(200 * time.Microsecond)
	}
}

func vfLineAt(rec *vfRecorder, at int) []byte {
	b := rec.bytes()
	j := bytes.IndexByte(b[at:], '\n')
	return b[at : at+j+1]
}

type vfC14Case struct {
	Action    map[string]any `json:"action"` // what the client announces
	Args      vfPairCfg      `json:"args"`   // the server's command line
	Tmux      bool           `json:"tmux"`
	PaneWidth int32          `json:"pane_width"`
	ServerTmux int           `json:"server_tmux"` // 0 none, 1 normal mode with pane width
	Download  bool           `json:"download"`
	More      []vfC14Round   `json:"more,omitempty"` // further handshakes through the same relay instance
	// how this transfer ends: 0 the client's EXIT once the relay is transferring; 1 the client gives up (#fail:) while the relay
	// still waits for a slow server's configuration; 2 the client's EXIT right behind the configuration it was sent, whatever
	// the relay's state; 3 the server's own #fail: in the same write as its configuration (it failed right after answering)
	End int `json:"end,omitempty"`
}

type vfC14Round struct {
	Action     map[string]any `json:"action"`
	Args       vfPairCfg      `json:"args"`
	ServerTmux int            `json:"server_tmux"`
	Download   bool           `json:"download"`
	End        int            `json:"end,omitempty"`
}

func vfC14Run(cs vfC14Case) string {
	g := newVfRelayRig(cs.Tmux, cs.PaneWidth)
	defer g.close()
	rounds := append([]vfC14Round{{Action: cs.Action, Args: cs.Args, ServerTmux: cs.ServerTmux, Download: cs.Download, End: cs.End}}, cs.More...)
	for i, r := range rounds {
		one := cs
		one.Action, one.Args, one.ServerTmux, one.Download, one.End = r.Action, r.Args, r.ServerTmux, r.Download, r.End
		if m := vfC14Round1(g, one, i); m != "" {
			if i > 0 {
				return fmt.Sprintf("handshake %d through the same relay: %s", i+1, m)
			}
			return m
		}
	}
	return ""
}

func vfC14Round1(g *vfRelayRig, cs vfC14Case, round int) string {
	cliBase, srvBase := g.cliOut.len(), g.srvIn.len()
	mode := "R"
	if cs.Download {
		mode = "S"
	}
	trigger := fmt.Sprintf("\x1b7\x07::TRZSZ:TRANSFER:%s:1.1.8:%013d:%d\r\n", mode, 1234567890100+int64(round)*100, 0)
	g.srvOut.feed([]byte(trigger))
	if _, ok := vfWaitFor(g.cliOut, cliBase, "#R", 3*time.Second); !ok {
		return "the relay did not forward the trigger marked #R"
	}
	actJSON, _ := json.Marshal(cs.Action)
	nl := "\n"
	if v, ok := cs.Action["newline"].(string); ok && v == "!\n" {
		nl = "!\n"
	}
	g.cliIn.feed(vfEncodeLine("ACT", actJSON, "\n"))
	at, ok := vfWaitFor(g.srvIn, srvBase, "#ACT:", 3*time.Second)
	if !ok {
		return fmt.Sprintf("the relay did not pass an ACT line to the server for action %s (client got %s)", actJSON, vfShort(g.cliOut.bytes(), 200))
	}
	act2JSON, err := vfDecodeLine(vfLineAt(g.srvIn, at))
	if err != nil {
		return "cannot decode the forwarded ACT: " + err.Error()
	}
	dec := func(js []byte) (*transferAction, error) {
		a := &transferAction{Newline: "\n", SupportBinary: true}
		return a, json.Unmarshal(js, a)
	}
	a1, err1 := dec(actJSON)
	a2, err2 := dec(act2JSON)
	if err1 != nil {
		return "" // an action the server itself could not parse: out of domain
	}
	if err2 != nil {
		return "forwarded ACT does not parse: " + err2.Error()
	}
	want := *a1
	want.SupportBinary = a1.SupportBinary && a1.TunnelConnected
	if want.Protocol > kProtocolVersion {
		want.Protocol = kProtocolVersion
	}
	if !reflect.DeepEqual(*a2, want) {
		return fmt.Sprintf("the ACT reaching the server is not the narrowing of the client's: client %+v, server sees %+v, expected %+v", *a1, *a2, want)
	}
	if a2.SupportBinary && !a1.TunnelConnected {
		return "binary mode can be negotiated through the relay without a tunnel"
	}
	if a2.Protocol > a1.Protocol {
		return fmt.Sprintf("the relay raised the protocol: %d -> %d", a1.Protocol, a2.Protocol)
	}
	if !a1.Confirm {
		deadline := time.Now().Add(3 * time.Second)
		for g.relay.relayStatus.Load() != kRelayStandBy && time.Now().Before(deadline) {
			time.Sleep(100 * time.Microsecond)
		}
		return ""
	}
	// the real server code answers the narrowed action
	var cfgBuf bytes.Buffer
	st := newTransfer(&cfgBuf, nil, false, nil)
	st.transferConfig.Newline = a2.Newline
	args := (&vfPairRun{cfg: cs.Args}).baseArgs()
	if args.Binary && !a2.SupportBinary {
		args.Binary = false
	}
	tm, pw := tmuxModeType(noTmuxMode), int32(-1)
	if cs.ServerTmux == 1 {
		tm, pw = tmuxNormalMode, 77
	}
	var esc [][]unicode
	if !cs.Download {
		esc = getEscapeChars(args.Escape)
	}
	if err := st.sendConfig(args, a2, esc, tm, pw); err != nil {
		return "sendConfig: " + err.Error()
	}
	cfgLine := append([]byte(nil), cfgBuf.Bytes()...)
	failLine := vfEncodeLine("fail", []byte("Stopped"), "\n")
	switch cs.End {
	case 1:
		// the client gives up before the (slow) server has answered: its line is parked at the relay, which waits for the config
		g.cliIn.feed(failLine)
		parked := time.Now().Add(3 * time.Second)
		for len(g.relay.stdinBuffer.bufCh) == 0 && time.Now().Before(parked) {
			time.Sleep(100 * time.Microsecond)
		}
		g.srvOut.feed(cfgLine)
	case 3:
		g.srvOut.feed(append(append([]byte(nil), cfgLine...), failLine...))
	default:
		g.srvOut.feed(cfgLine)
	}
	marker := "#CFG:"
	at, ok = vfWaitFor(g.cliOut, cliBase, marker, 3*time.Second)
	if !ok {
		return fmt.Sprintf("the relay did not pass a CFG line to the client (client got %s)", vfShort(g.cliOut.bytes(), 300))
	}
	cfg1JSON, _ := vfDecodeLine(cfgLine)
	cfg2JSON, err := vfDecodeLine(vfLineAt(g.cliOut, at))
	if err != nil {
		return "cannot decode the forwarded CFG: " + err.Error()
	}
	decCfg := func(js []byte) (*transferConfig, error) {
		c := &transferConfig{Timeout: 20, Newline: "\n", MaxBufSize: 10 * 1024 * 1024}
		return c, json.Unmarshal(js, c)
	}
	c1, e1 := decCfg(cfg1JSON)
	c2, e2 := decCfg(cfg2JSON)
	if e1 != nil {
		return "server CFG does not parse: " + e1.Error()
	}
	if e2 != nil {
		return fmt.Sprintf("the CFG reaching the client does not parse (%v): %s", e2, cfg2JSON)
	}
	wantCfg := *c1
	if cs.Tmux {
		wantCfg.TmuxOutputJunk = true
	}
	if wantCfg.TmuxPaneColumns <= 0 && cs.Tmux && cs.PaneWidth > 0 {
		wantCfg.TmuxPaneColumns = cs.PaneWidth
	}
	if !reflect.DeepEqual(*c2, wantCfg) {
		return fmt.Sprintf("the CFG reaching the client dropped or changed a server setting: server %s, client sees %s", cfg1JSON, cfg2JSON)
	}
	_ = nl
	// end of transfer: back to standby, transparent again
	how := "EXIT"
	switch cs.End {
	case 1:
		how = "the client's #fail: that came before the server's configuration"
		if _, ok := vfWaitFor(g.srvIn, srvBase, "#fail:", 3*time.Second); !ok {
			return "the client's #fail: line, parked during the handshake, did not reach the server"
		}
	case 3:
		how = "the server's #fail: right behind its configuration"
		if _, ok := vfWaitFor(g.cliOut, cliBase, "#fail:", 3*time.Second); !ok {
			return "the server's #fail: line behind its configuration did not reach the client"
		}
	default:
		if cs.End != 2 {
			deadline0 := time.Now().Add(3 * time.Second)
			for g.relay.relayStatus.Load() != kRelayTransferring {
				if time.Now().After(deadline0) {
					return "the relay did not enter the transferring state after the handshake"
				}
				time.Sleep(100 * time.Microsecond)
			}
		}
		g.cliIn.feed(vfEncodeLine("EXIT", []byte("Saved 1 file"), "\n"))
		if _, ok := vfWaitFor(g.srvIn, srvBase, "#EXIT:", 3*time.Second); !ok {
			return "the EXIT line did not reach the server"
		}
	}
	deadline := time.Now().Add(3 * time.Second)
	for g.relay.relayStatus.Load() != kRelayStandBy {
		if time.Now().After(deadline) {
			return "the relay did not return to standby after " + how
		}
		time.Sleep(time.Millisecond)
	}
	base := g.cliOut.len()
	g.srvOut.feed([]byte("probe-after\r\n"))
	if _, ok := vfWaitFor(g.cliOut, base, "probe-after", 3*time.Second); !ok {
		return "after the transfer the relay is not transparent"
	}
	return ""
}

func vfGenC14(rt *rapid.T) vfC14Case {
	var cs vfC14Case
	a := map[string]any{"lang": "go", "version": "1.1.8", "confirm": rapid.IntRange(0, 9).Draw(rt, "confirm") != 0}
	if rapid.IntRange(0, 4).Draw(rt, "hasnewline") != 0 {
		a["newline"] = "\n"
	}
	if rapid.IntRange(0, 5).Draw(rt, "hasproto") != 0 {
		a["protocol"] = rapid.IntRange(0, 9).Draw(rt, "protocol")
	}
	if rapid.IntRange(0, 3).Draw(rt, "hasbinary") != 0 {
		a["binary"] = rapid.Bool().Draw(rt, "binary")
	}
	a["support_dir"] = rapid.Bool().Draw(rt, "dir")
	if rapid.IntRange(0, 3).Draw(rt, "tunnel") == 0 {
		// a tunnel needs real connections; the handshake-level check covers the in-band path only
		a["fork"] = rapid.Bool().Draw(rt, "fork")
	}
	if rapid.IntRange(0, 3).Draw(rt, "extra") == 0 {
		a["future_option"] = rapid.SampledFrom([]any{1, "x", true, []int{1}}).Draw(rt, "extraval")
	}
	cs.Action = a
	cs.Args = vfGenPairCfg(rt, 100)
	cs.Args.Timeout = rapid.SampledFrom([]int{20, 1, 0, -1, 300}).Draw(rt, "timeout")
	cs.Tmux = rapid.Bool().Draw(rt, "relaytmux")
	cs.PaneWidth = int32(rapid.SampledFrom([]int{0, -1, 40, 80, 200}).Draw(rt, "pane"))
	cs.ServerTmux = rapid.IntRange(0, 1).Draw(rt, "servertmux")
	cs.Download = rapid.Bool().Draw(rt, "download")
	cs.End = rapid.SampledFrom([]int{0, 0, 1, 2, 3}).Draw(rt, "end")
	// further handshakes through the same relay: what one transfer negotiated must not leak into the next
	nmore := rapid.SampledFrom([]int{0, 0, 1, 2}).Draw(rt, "nmore")
	for i := 0; i < nmore; i++ {
		var r vfC14Round
		b := map[string]any{"lang": "go", "version": "1.1.8", "confirm": rapid.IntRange(0, 9).Draw(rt, "confirm_m") != 0, "newline": "\n",
			"protocol": rapid.IntRange(0, 9).Draw(rt, "protocol_m"), "binary": rapid.Bool().Draw(rt, "binary_m"), "support_dir": rapid.Bool().Draw(rt, "dir_m")}
		r.Action = b
		r.Args = vfGenPairCfg(rt, 100)
		r.Args.Timeout = rapid.SampledFrom([]int{20, 1, 0, 300}).Draw(rt, "timeout_m")
		r.ServerTmux = rapid.IntRange(0, 1).Draw(rt, "servertmux_m")
		r.Download = rapid.Bool().Draw(rt, "download_m")
		r.End = rapid.SampledFrom([]int{0, 0, 1, 2, 3}).Draw(rt, "end_m")
		cs.More = append(cs.More, r)
	}
	return cs
}

func TestVF_C14(t *testing.T) {
	c := vfNewCollector("C14", "TestVF_C14")
	vfCheck(t, c, vfGenC14, func(cs vfC14Case) string {
		msg := vfC14Run(cs)
		labels := []string{"handshake_level", fmt.Sprintf("handshakes_through_one_relay_%d", 1+len(cs.More)), fmt.Sprintf("first_transfer_end_mode_%d", cs.End)}
		if cs.Tmux {
			labels = append(labels, "relay_in_tmux")
		}
		if b, ok := cs.Action["binary"].(bool); ok && b {
			labels = append(labels, "client_requests_binary")
		}
		nt := false
		if p, ok := cs.Action["protocol"].(int); ok {
			labels = append(labels, fmt.Sprintf("client_protocol_%d", p))
			nt = p > 4
		}
		if _, ok := cs.Action["binary"]; !ok {
			nt = true // binary defaults to true when absent
		}
		if b, ok := cs.Action["binary"].(bool); ok && b {
			nt = true
		}
		c.eval(cs, nt, labels...)
		return msg
	})
}

// ---------------------------------------------------------------------------------
// e2e: sequences of transfers with every outcome through the same relay instance(s)

type vfC14SeqCase struct {
	Tunnel bool        `json:"tunnel,omitempty"` // client and relays have tunnel connectors: transfers go through the relays' tunnel
	Relays int         `json:"relays"`
	Acts   []vfC05Act  `json:"acts"`
	Binary bool        `json:"binary"`
	Windows bool       `json:"client_windows,omitempty"` // the client is affected by Windows: it asks for "!\n" line ends from the server
}

func vfC14SeqRun(cs vfC14SeqCase) string {
	oldWin := windowsEnvironment
	SetAffectedByWindows(cs.Windows)
	defer SetAffectedByWindows(oldWin)
	base, err := os.MkdirTemp("", "vfc14")
	if err != nil {
		return "mkdtemp: " + err.Error()
	}
	defer os.RemoveAll(base)
	src := filepath.Join(base, "src")
	os.MkdirAll(src, 0755)
	vfWriteFile(filepath.Join(src, "small.bin"), vfKindNoise, 5, 3000)
	vfWriteFile(filepath.Join(src, "big.bin"), vfKindNoise, 6, 6<<20)
	vfCurCase("TestVF_C14Seq", cs)
	sess := vfNewSession(vfSessOpts{Relays: cs.Relays, Tunnel: cs.Tunnel})
	defer sess.close()
	for i, a := range cs.Acts {
		termBase := sess.termOut.len()
		nAct := 0
		for _, m := range sess.c2s.messages() {
			if m.Typ == "ACT" {
				nAct++
			}
		}
		if m := vfC05Transfer(sess, a, src, base); m != "" {
			return fmt.Sprintf("transfer %d (%s) through %d relay(s): %s", i, a.Outcome, cs.Relays, m)
		}
		// narrowed again: the trigger shown to the client carries #R, the ACT the server saw has binary off
		if a.Outcome != "refused" || !a.Upload {
			if !bytes.Contains(sess.termOut.bytes()[termBase:], []byte("#R")) {
				return fmt.Sprintf("transfer %d: the trigger that reached the client is not marked as relayed", i)
			}
			tr := sess.c2s.transcript()
			k := 0
			for _, m := range sess.c2s.messages() {
				if m.Typ != "ACT" || cs.Tunnel {
					continue
				}
				k++
				if k <= nAct {
					continue
				}
				js, err := vfDecodeLine(tr[m.Off : m.Off+int64(m.Len)])
				if err != nil {
					return "cannot decode the ACT the server saw: " + err.Error()
				}
				var act transferAction
				act.SupportBinary = true
				if json.Unmarshal(js, &act) != nil || act.SupportBinary || act.Protocol > kProtocolVersion {
					return fmt.Sprintf("transfer %d: the ACT the server saw is not narrowed: %s", i, js)
				}
			}
		}
		// transparent again, both ways
		marker := []byte(fmt.Sprintf("<<RELAY-PROBE-%d>>", i))
		sess.shellOutput(marker)
		deadline := time.Now().Add(5 * time.Second)
		for !bytes.Contains(sess.termOut.bytes(), marker) {
			if time.Now().After(deadline) {
				return fmt.Sprintf("after transfer %d (%s) server output no longer passes the relay(s)", i, a.Outcome)
			}
			time.Sleep(2 * time.Millisecond)
		}
		in := []byte(fmt.Sprintf("echo probe-%d\r", i))
		shellBase := sess.shellIn.len()
		sess.typeInput(in)
		deadline = time.Now().Add(5 * time.Second)
		for !bytes.Contains(sess.shellIn.bytes()[shellBase:], in) {
			if time.Now().After(deadline) {
				return fmt.Sprintf("after transfer %d (%s) user input no longer passes the relay(s)", i, a.Outcome)
			}
			time.Sleep(2 * time.Millisecond)
		}
	}
	return ""
}

func vfGenC14Seq(rt *rapid.T) vfC14SeqCase {
	var cs vfC14SeqCase
	cs.Relays = rapid.IntRange(1, 2).Draw(rt, "relays")
	cs.Tunnel = rapid.IntRange(0, 2).Draw(rt, "tunnel") == 0
	n := rapid.IntRange(2, 5).Draw(rt, "n")
	for i := 0; i < n; i++ {
		a := vfC05Act{Kind: "transfer", Outcome: rapid.SampledFrom([]string{"succeeded", "succeeded", "refused", "failed", "stopped", "stopped_ui", "sigint", "sigint", "forked"}).Draw(rt, "outcome"),
			Upload: rapid.Bool().Draw(rt, "upload")}
		// the end comes while the relays are still between the action and a slow server's configuration
		a.Early = (a.Outcome == "stopped" || a.Outcome == "sigint" || a.Outcome == "stopped_ui") && rapid.IntRange(0, 2).Draw(rt, "early") == 0
		cs.Acts = append(cs.Acts, a)
	}
	cs.Acts = append(cs.Acts, vfC05Act{Kind: "transfer", Outcome: "succeeded", Upload: rapid.Bool().Draw(rt, "lastupload")})
	cs.Windows = rapid.IntRange(0, 3).Draw(rt, "client_windows") == 0
	return cs
}

func TestVF_C14Seq(t *testing.T) {
	c := vfNewCollector("C14", "TestVF_C14Seq")
	vfCheck(t, c, vfGenC14Seq, func(cs vfC14SeqCase) string {
		msg := vfC14SeqRun(cs)
		if msg != "" {
			// real processes and relays on timeouts of a few seconds: under heavy load a fault-free transfer can time out (and the
			// rest of the sequence then looks wrong too). A verdict is reported only if the same sequence fails again.
			if m2 := vfC14SeqRun(cs); m2 == "" {
				c.inconclusive("not_reproduced")
				msg = ""
			}
		}
		labels := []string{"e2e_sequence", fmt.Sprintf("relay_hops_%d", cs.Relays)}
		if cs.Windows {
			labels = append(labels, "client_affected_by_windows")
		}
		if cs.Tunnel {
			labels = append(labels, "through_the_relay_tunnel")
		}
		for _, a := range cs.Acts {
			labels = append(labels, "outcome_"+a.Outcome)
			if a.Early {
				labels = append(labels, "ended_during_the_handshake")
			}
		}
		c.eval(cs, len(cs.Acts) >= 2, labels...)
		return msg
	})
}

// TestVF_C14ServerDies: the server process dies between the ACT and the CFG line (a failure "on the server side" during
// the handshake). The relay must find its way back to standby: later output and input pass again.
func TestVF_C14ServerDies(t *testing.T) {
	c := vfNewCollector("C14", "TestVF_C14ServerDies")
	defer vfFlushAll()
	if vfReplayOnly() {
		return
	}
	shard, shards := vfShard()
	for i, tmux := range []bool{false, true} {
		if i%shards != shard {
			continue
		}
		cs := map[string]any{"scenario": "server dies between ACT and CFG", "relay_in_tmux": tmux}
		g := newVfRelayRig(tmux, 80)
		defer g.close()
		g.srvOut.feed([]byte("\x1b7\x07::TRZSZ:TRANSFER:R:1.1.8:1234567890100:0\r\n"))
		if _, ok := vfWaitFor(g.cliOut, 0, "#R", 3*time.Second); !ok {
			t.Fatalf("trigger not forwarded")
		}
		g.cliIn.feed(vfEncodeLine("ACT", []byte(`{"lang":"go","version":"1.1.8","confirm":true,"newline":"\n","protocol":4,"binary":true,"support_dir":true}`), "\n"))
		if _, ok := vfWaitFor(g.srvIn, 0, "#ACT:", 3*time.Second); !ok {
			t.Fatalf("ACT not forwarded")
		}
		// the server is gone; its shell prints a prompt, the user types
		time.Sleep(50 * time.Millisecond)
		g.srvOut.feed([]byte("Killed\r\nuser@host:~$ \r\n")) // read junk-tolerantly as the start of the expected config line: discarded by design
		// the relay must be back in standby within its own bound; what comes afterwards passes again
		deadline := time.Now().Add(30 * time.Second)
		for g.relay.relayStatus.Load() != kRelayStandBy && time.Now().Before(deadline) {
			time.Sleep(20 * time.Millisecond)
		}
		base := g.cliOut.len()
		g.srvOut.feed([]byte("later-output\r\n"))
		g.cliIn.feed([]byte("ls\r"))
		_, ok1 := vfWaitFor(g.cliOut, base, "later-output", 5*time.Second)
		ok2 := false
		deadline = time.Now().Add(5 * time.Second)
		for time.Now().Before(deadline) {
			if bytes.Contains(g.srvIn.bytes(), []byte("ls\r")) {
				ok2 = true
				break
			}
			time.Sleep(5 * time.Millisecond)
		}
		c.eval(cs, true, "server_dies_in_handshake")
		if !ok1 || !ok2 {
			msg := fmt.Sprintf("the server died between ACT and CFG: 30 s later the relay still holds back server output (passed=%v) and user input (passed=%v)", ok1, ok2)
			c.violation("server_dies", cs, msg)
			t.Errorf("%s", msg)
		}
	}
}
