//go:build verif

// C18 — pausing and resuming never corrupts a transfer or leaves it hanging.

package trzsz

import (
	"bytes"
	"fmt"
	"path/filepath"
	"strings"
	"sync"
	"testing"
	"time"
)

type vfC18Case struct {
	Scen    vfScenario `json:"scenario"`
	Ev      vfEvent    `json:"event"`
	PauseMs int        `json:"pause_ms"`
	Cycles  int        `json:"cycles"`
	Via     string     `json:"via"` // api | ui
	// LatencyMs: from eight messages before the pause begins until 1.5 s after it ended both directions of the connection deliver
	// this much later (a slow path): the peer has then typically been waiting for a good part of a round trip when the pause
	// begins, and what it waits for arrives pause + latency later still - it only survives if the keep-alive lines really extend
	// its deadline. In the phases that have no keep-alives (the tail of a file: final ack, MD5) the peer sees pause + latency of
	// silence, so success is demanded only while pause + latency stays 400 ms under the timeout.
	LatencyMs int `json:"latency_ms,omitempty"`
	// PeerDies: the connection goes silent in both directions the moment the pause begins (the peer or the link died while the user
	// was looking at the question). After "continue" the paused side must still end, with an error, within its timeout.
	PeerDies bool `json:"peer_dies,omitempty"`
}

type vfC18Res struct {
	covered bool
	fired   bool
	outcome string
	paused  int
}

type vfPauseWindow struct{ from, to time.Time }

func vfC18Run(cs vfC18Case, res *vfC18Res) string {
	sc := cs.Scen
	e, err := vfScenSetup(sc)
	if err != nil {
		return "setup: " + err.Error()
	}
	defer e.cleanup()
	vfCurCase("TestVF_C18", cs)
	sess := vfNewSession(sc.Sess)
	defer sess.close()
	// throttled: the data phase must outlast the pause, otherwise "no data while paused" is vacuous
	sess.c2s.throttle = 4 * time.Millisecond
	sess.s2c.throttle = 4 * time.Millisecond
	var mu sync.Mutex
	var windows []vfPauseWindow
	var wg sync.WaitGroup
	pause := time.Duration(cs.PauseMs) * time.Millisecond
	fire := func() {
		wg.Add(1)
		go func() {
			defer wg.Done()
			for cyc := 0; cyc < maxInt(1, cs.Cycles); cyc++ {
				t := sess.filter.transfer.Load()
				if t == nil {
					return
				}
				var from time.Time
				if cs.LatencyMs > 0 {
					defer func() {
						time.Sleep(1500 * time.Millisecond)
						sess.c2s.setLatency(0)
						sess.s2c.setLatency(0)
					}()
				}
				if cs.PeerDies {
					sess.wire("c2s").setSilent(true)
					sess.wire("s2c").setSilent(true)
				}
				if cs.Via == "api" {
					t.pauseTransferringFiles()
					from = time.Now()
					time.Sleep(pause)
					to := time.Now()
					t.resumeTransferringFiles()
					mu.Lock()
					windows = append(windows, vfPauseWindow{from, to})
					mu.Unlock()
				} else {
					base := sess.termOut.len()
					sess.typeInput([]byte{0x03})
					deadline := time.Now().Add(5 * time.Second)
					seen := false
					for time.Now().Before(deadline) {
						if bytes.Contains(sess.termOut.bytes()[base:], []byte("Are you sure")) {
							seen = true
							break
						}
						time.Sleep(2 * time.Millisecond)
					}
					if !seen {
						return // the transfer ended before the question came up
					}
					from = time.Now()
					time.Sleep(pause)
					to := time.Now()
					sess.typeInput([]byte("q"))
					mu.Lock()
					windows = append(windows, vfPauseWindow{from, to})
					mu.Unlock()
				}
				time.Sleep(120 * time.Millisecond)
			}
		}()
	}
	tk := vfArm(sess, sc.Cfg.Upload, cs.Ev, fire)
	if cs.LatencyMs > 0 {
		var slow sync.Once
		for _, lk := range []*vfLink{sess.c2s, sess.s2c} {
			inner := lk.onMsg
			lk.onMsg = func(m vfMsg, before bool) {
				if m.Dir == cs.Ev.Dir && m.Idx >= cs.Ev.K-8 {
					slow.Do(func() {
						sess.c2s.setLatency(time.Duration(cs.LatencyMs) * time.Millisecond)
						sess.s2c.setLatency(time.Duration(cs.LatencyMs) * time.Millisecond)
					})
				}
				inner(m, before)
			}
		}
	}
	run, err := vfStartTransfer(sess, sc.Cfg, e.paths, e.dest)
	if err != nil {
		return "cannot start: " + err.Error()
	}
	T := time.Duration(sc.Cfg.Timeout) * time.Second
	total := time.Duration(maxInt(1, cs.Cycles)) * (pause + 300*time.Millisecond)
	run.finish(total + 3*T + 25*time.Second)
	wg.Wait()
	tk.mu.Lock()
	res.fired = tk.fired
	tk.mu.Unlock()
	mu.Lock()
	res.paused = len(windows)
	wins := append([]vfPauseWindow(nil), windows...)
	mu.Unlock()
	if !run.serverEnded || !run.clientIdle {
		return fmt.Sprintf("a side was still running %v after a pause of %v x%d: %s", run.wall, pause, cs.Cycles, run.describe())
	}
	collide := sc.Pre == "collide" && !sc.Cfg.Overwrite
	destName := func(rel string) string {
		if !collide {
			return rel
		}
		parts := strings.SplitN(rel, string(filepath.Separator), 2)
		parts[0] += ".0"
		return filepath.Join(parts...)
	}
	same, _ := e.identicalFiles(destName)
	serverOK, clientOK := run.serverSuccess(), run.clientSuccess()
	if serverOK || clientOK {
		res.outcome = "success"
		if same != len(e.fileRel) {
			return fmt.Sprintf("a side reported success after pause/resume but only %d of %d files are complete and identical: %s", same, len(e.fileRel), run.describe())
		}
	} else {
		res.outcome = "error"
	}
	// Was the whole pause spent in a phase that has keep-alives? Then the paused client wrote "=" lines throughout and the first
	// real line after them is file data or an ack again: the peer's deadline is extended by every one of them, whatever the
	// latency. Otherwise (the tail of a file: final ack, MD5, names) the peer simply sees pause + latency of silence.
	covered := false
	if len(wins) == 1 {
		w := wins[0]
		keep, other := 0, 0
		next := ""
		for _, m := range sess.c2s.messages() {
			ka := strings.HasPrefix(m.Txt, "#DATA:=") || strings.HasPrefix(m.Txt, "#SUCC:=")
			switch {
			case m.At.Before(w.from.Add(150 * time.Millisecond)):
			case m.At.Before(w.to):
				if ka {
					keep++
				} else {
					other++
				}
			case !ka && next == "":
				next = m.Typ
			}
		}
		covered = keep >= int(pause/(200*time.Millisecond)) && keep >= 2 && other == 0 && (next == "DATA" || next == "BIN" || next == "SUCC")
	}
	res.covered = covered
	demanded := pause+time.Duration(cs.LatencyMs)*time.Millisecond <= T-400*time.Millisecond || (covered && pause <= T-300*time.Millisecond)
	if cs.PeerDies {
		demanded = false // nothing can succeed any more; both sides must have ended (checked above), and success must not be claimed
		if res.paused > 0 && (serverOK || clientOK) && same != len(e.fileRel) {
			return fmt.Sprintf("the peer died during the pause, yet a side reported success with %d of %d files: %s", same, len(e.fileRel), run.describe())
		}
	}
	if demanded && !(serverOK && clientOK) {
		tl := ""
		if len(wins) > 0 {
			for _, lk := range []*vfLink{sess.c2s, sess.s2c} {
				ms := lk.messages()
				if len(ms) > 10 {
					ms = ms[len(ms)-10:]
				}
				tl += " | " + lk.dir + ":"
				for _, m := range ms {
					tl += fmt.Sprintf(" %+dms %s", m.At.Sub(wins[0].from).Milliseconds(), strings.Map(func(r rune) rune {
						if r < 32 || r > 126 {
							return '.'
						}
						return r
					}, vfTrunc(m.Txt, 14)))
				}
			}
		}
		return fmt.Sprintf("a pause of %v (< timeout %v) x%d at %+v made the transfer fail: %s; last messages relative to the pause begin%s", pause, T, cs.Cycles, cs.Ev, run.describe(), tl)
	}
	// while paused the paused side starts no file data (keep-alives take its place)
	if sc.Cfg.Upload && sc.Cfg.Protocol >= 3 {
		for _, m := range sess.c2s.messages() {
			if m.Typ != "DATA" && m.Typ != "BIN" {
				continue
			}
			if strings.HasPrefix(m.Txt, "#DATA:=") {
				continue
			}
			for _, w := range wins {
				if m.At.After(w.from.Add(150*time.Millisecond)) && m.At.Before(w.to) {
					return fmt.Sprintf("the paused client started file data (%q, %d bytes) %v after the pause began (pause %v)", vfTrunc(m.Txt, 20), m.Len, m.At.Sub(w.from), pause)
				}
			}
		}
	}
	return ""
}

func vfC18Eval(c *vfCollector, cs vfC18Case, res *vfC18Res) {
	cls := "pause<T-1"
	T := cs.Scen.Cfg.Timeout * 1000
	if cs.PauseMs+cs.LatencyMs > T-400 {
		cls = "pause_around_or_above_T"
	}
	labels := []string{"scenario_" + cs.Scen.Name, "via_" + cs.Via, cls, fmt.Sprintf("cycles_%d", cs.Cycles), "outcome_" + res.outcome}
	if cs.LatencyMs > 0 {
		labels = append(labels, "slow_link_during_pause")
	}
	if cs.PeerDies {
		labels = append(labels, "peer_dies_during_pause")
	}
	if res.covered {
		labels = append(labels, "pause_covered_by_keepalives")
	}
	if !res.fired {
		labels = append(labels, "event_never_reached")
	}
	c.eval(cs, res.fired && res.paused > 0, labels...)
}

func TestVF_C18(t *testing.T) {
	c := vfNewCollector("C18", "TestVF_C18")
	defer vfFlushAll()
	for _, f := range vfCaseFilesFor(c.Test) {
		var cs vfC18Case
		if err := jsonUnmarshal(f.Case, &cs); err != nil {
			t.Errorf("bad case file %s: %v", f.Path, err)
			continue
		}
		var res vfC18Res
		msg := vfGuard(func() string { return vfC18Run(cs, &res) })
		vfC18Eval(c, cs, &res)
		if msg != "" {
			c.violation("regress:"+filepath.Base(f.Path), cs, msg)
			t.Errorf("case file %s fails: %s", f.Path, msg)
		}
	}
	if vfReplayOnly() || t.Failed() {
		return
	}
	shard, shards := vfShard()
	stride := vfEnvInt("VERIF_C18_STRIDE", 1)
	long := vfEnvInt("VERIF_C18_LONG", 0) == 1
	seed := vfEnvInt("VERIF_SEED", 1)
	for _, sc := range vfScenarios() {
		if sc.Cfg.Protocol < 3 {
			continue
		}
		sc.Size *= 3
		sc.Cfg.Bufsize = 2048 // more chunks, so that the ack window and the buffer probing phase are both visited
		nc, ns, msg := vfDryRun(sc)
		if msg != "" {
			c.inconclusive("fault_free_dry_run_failed")
			c.note("a fault-free dry run failed three times, its scenario was skipped in this shard: " + msg)
			continue
		}
		type prof struct {
			ms, cycles, latency int
			dies                bool
		}
		profiles := []prof{{50, 1, 0, false}, {300, 1, 0, false}, {300, 3, 0, false}, {1800, 1, 0, false}, {sc.Cfg.Timeout*1000 - 400, 1, 600, false},
			{sc.Cfg.Timeout*1000 + 600, 1, 0, true}, {900, 1, 0, true}}
		if long {
			profiles = append(profiles, prof{3000, 1, 0, false}, prof{4500, 1, 0, false}, prof{1200, 2, 0, false}, prof{sc.Cfg.Timeout*1000 - 400, 1, 0, false}, prof{1200, 2, 300, false}, prof{sc.Cfg.Timeout*1000 - 400, 1, 400, false})
		}
		for _, via := range []string{"api", "ui"} {
			for _, pr := range profiles {
				for _, dir := range []string{"c2s", "s2c"} {
					n := nc
					if dir == "s2c" {
						n = ns
					}
					for k := 1; k < n; k++ {
						for _, before := range []bool{true, false} {
							h := vfPointHash(sc.Name, via, pr.ms, pr.cycles, dir, k, before, pr.latency, pr.dies)
							// the buffer-size probing phase (the first chunks of the first file and their acknowledgements) is never thinned
							// for the plain 300 ms pause through the API
							core := via == "api" && pr.ms == 300 && pr.cycles == 1 && pr.latency == 0 && !pr.dies && vfInProbingPhase(dir, k)
							if int(h%uint64(shards)) != shard || (!core && (int(h/uint64(shards)%1000003)+seed)%stride != 0) {
								continue
							}
							cs := vfC18Case{Scen: sc, Ev: vfEvent{Dir: dir, K: k, Before: before}, PauseMs: pr.ms, Cycles: pr.cycles, Via: via, LatencyMs: pr.latency, PeerDies: pr.dies}
							var res vfC18Res
							m := vfGuard(func() string { return vfC18Run(cs, &res) })
							if m != "" && strings.Contains(m, "still running") {
								again := 0
								for r := 0; r < 2; r++ {
									var res2 vfC18Res
									if m2 := vfGuard(func() string { return vfC18Run(cs, &res2) }); m2 != "" {
										again++
									}
								}
								if again == 0 {
									c.inconclusive("timing_not_reproduced")
									m = ""
								}
							}
							vfC18Eval(c, cs, &res)
							if m != "" {
								c.violation("enumerated", cs, m)
								t.Errorf("%s", m)
								return
							}
						}
					}
				}
			}
		}
	}
}
