//go:build verif

// Session-engine transfers: one helper that runs a real upload / download between the in-process filter and a real
// trz / tsz child, used by C01 (session part), C02, C10, C11, C14, C17, C18.

package trzsz

import (
	"bytes"
	"compress/zlib"
	"encoding/base64"
	"encoding/json"
	"fmt"
	"os"
	"path/filepath"
	"strconv"
	"testing"
	"time"

	"pgregory.net/rapid"
)

func vfServerFlags(cfg vfPairCfg) []string {
	var a []string
	if !cfg.Progress {
		a = append(a, "-q")
	}
	if cfg.Overwrite {
		a = append(a, "-y")
	}
	if cfg.Binary {
		a = append(a, "-b")
	}
	if cfg.Escape {
		a = append(a, "-e")
	}
	if cfg.Directory {
		a = append(a, "-d")
	}
	if cfg.Fork {
		a = append(a, "-f")
	}
	if cfg.Bufsize > 0 {
		a = append(a, "-B", strconv.FormatInt(cfg.Bufsize, 10))
	}
	if cfg.Timeout != 0 {
		a = append(a, "-t", strconv.Itoa(cfg.Timeout))
	}
	switch cfg.Compress {
	case 1:
		a = append(a, "-c", "yes")
	case 2:
		a = append(a, "-c", "no")
	}
	return a
}

func vfEncodeLine(typ string, payload []byte, newline string) []byte {
	var b bytes.Buffer
	z := zlib.NewWriter(&b)
	z.Write(payload)
	z.Close()
	return []byte("#" + typ + ":" + base64.StdEncoding.EncodeToString(b.Bytes()) + newline)
}

// vfRewriteJSON returns a link rewriter that edits the JSON of the first message of the given type.
func vfRewriteJSON(typ string, edit func(m map[string]any)) func(vfMsg, []byte) []byte {
	done := false
	return func(m vfMsg, line []byte) []byte {
		if done || m.Typ != typ {
			return nil
		}
		js, err := vfDecodeLine(line)
		if err != nil {
			return nil
		}
		var obj map[string]any
		if json.Unmarshal(js, &obj) != nil {
			return nil
		}
		edit(obj)
		out, _ := json.Marshal(obj)
		done = true
		nl := "\n"
		if bytes.HasSuffix(line, []byte("!\n")) {
			nl = "!\n"
		}
		return vfEncodeLine(typ, out, nl)
	}
}

type vfSessRun struct {
	sess        *vfSession
	uploadRes   <-chan error
	uploadErr   error
	uploadDone  bool
	serverMsg   string
	serverExit  int
	serverEnded bool
	clientIdle  bool
	clientSaid  string // exit | fail | ""
	msgBase     map[*vfLink]int // protocol lines each client-to-server link had seen when this transfer started
	clientText  string
	wall        time.Duration
	started     time.Time
}

// vfStartTransfer prepares the filter and launches the server child; the transfer then runs by itself.
func vfStartTransfer(sess *vfSession, cfg vfPairCfg, paths []string, dest string) (*vfSessRun, error) {
	r := &vfSessRun{sess: sess, started: time.Now(), msgBase: sess.msgCounts()}
	if cfg.Protocol > 0 && cfg.Protocol < 4 {
		p := cfg.Protocol
		sess.c2s.rewrite = vfRewriteJSON("ACT", func(m map[string]any) {
			if p <= 1 {
				delete(m, "protocol")
			} else {
				m["protocol"] = p
			}
		})
	}
	// in binary mode "#DATA:<n>" introduces n raw bytes: tell the taps of the sending direction
	if cfg.Binary && !windowsEnvironment {
		for _, l := range []*vfLink{sess.c2s, sess.tunC2S} {
			if l != nil {
				l.binary = cfg.Upload
			}
		}
		for _, l := range []*vfLink{sess.s2c, sess.tunS2C} {
			if l != nil {
				l.binary = !cfg.Upload
			}
		}
	}
	if sess.opts.Tunnel && sess.tunC2S != nil {
		// over a tunnel every transfer is binary
		sess.tunC2S.binary = cfg.Upload
		sess.tunS2C.binary = !cfg.Upload
	}
	flags := vfServerFlags(cfg)
	given := vfSpellDest(dest, sess.opts.DestSpell)
	if cfg.Upload {
		ch, err := sess.filter.OneTimeUpload(paths)
		if err != nil {
			return nil, err
		}
		r.uploadRes = ch
		if err := sess.startServer("trz", append(flags, given), dest); err != nil {
			return nil, err
		}
	} else {
		sess.filter.SetDefaultDownloadPath(given)
		if err := sess.startServer("tsz", append(flags, paths...), filepath.Dir(paths[0])); err != nil {
			return nil, err
		}
	}
	return r, nil
}

// finish waits for both sides and collects the verdicts.
func (r *vfSessRun) finish(limit time.Duration) {
	deadline := r.started.Add(limit)
	r.serverEnded = r.sess.waitServer(time.Until(deadline))
	r.clientIdle = r.sess.waitClientIdle(maxDuration(time.Until(deadline), time.Second))
	if r.uploadRes != nil {
		select {
		case err, ok := <-r.uploadRes:
			if ok {
				r.uploadErr = err
			}
			r.uploadDone = true
		case <-time.After(maxDuration(time.Until(deadline), 500*time.Millisecond)):
		}
	}
	r.wall = time.Since(r.started)
	r.serverMsg = r.sess.serverMessage()
	r.sess.mu.Lock()
	r.serverExit = r.sess.exitCode
	r.sess.mu.Unlock()
	r.clientSaid, r.clientText = r.sess.clientVerdictSince(r.msgBase)
}

func (r *vfSessRun) serverSuccess() bool {
	_, _, ok := vfParseSaved(r.serverMsg)
	return r.serverEnded && ok
}

func (r *vfSessRun) clientSuccess() bool { return r.clientSaid == "exit" }

func (r *vfSessRun) describe() string {
	return fmt.Sprintf("server ended=%v exit=%d message=%q stderr=%q; client said %s %q idle=%v uploadErr=%v; wall=%v", r.serverEnded, r.serverExit,
		r.serverMsg, vfTrunc(r.sess.serverStderr(), 300), r.clientSaid, vfTrunc(r.clientText, 200), r.clientIdle, r.uploadErr, r.wall)
}

func vfTrunc(s string, n int) string {
	if len(s) > n {
		return s[:n] + "…"
	}
	return s
}

// ---------------------------------------------------------------------------------
// C01, session part

type vfC01SessCase struct {
	Cfg     vfPairCfg   `json:"cfg"`
	Sess    vfSessOpts  `json:"sess"`
	Windows bool        `json:"client_windows"` // the client is "affected by Windows": server->client lines use "!\n" framing
	Paths   []vfTopPath `json:"paths"`
}

func vfC01SessRun(cs vfC01SessCase, res *vfC01Res) string {
	base, err := os.MkdirTemp("", "vfc01s")
	if err != nil {
		return "mkdtemp: " + err.Error()
	}
	defer os.RemoveAll(base)
	dest := filepath.Join(base, "dest")
	os.MkdirAll(dest, 0755)
	var paths, names []string
	for i, p := range cs.Paths {
		parent := filepath.Join(base, "src", fmt.Sprintf("p%d", i))
		os.MkdirAll(parent, 0755)
		if err := p.Tree.materialize(parent); err != nil {
			return ""
		}
		paths = append(paths, filepath.Join(parent, p.base()))
		names = append(names, p.base())
		for _, f := range p.Tree.Files {
			if !f.IsDir {
				res.files++
				res.bytes += f.Size
			}
		}
	}
	vfCurCase("TestVF_C01Session", cs)
	old := windowsEnvironment
	SetAffectedByWindows(cs.Windows)
	defer SetAffectedByWindows(old)
	sess := vfNewSession(cs.Sess)
	defer sess.close()
	cfg := cs.Cfg
	run, err := vfStartTransfer(sess, cfg, paths, dest)
	if err != nil {
		return "cannot start: " + err.Error()
	}
	run.finish(60 * time.Second)
	if !run.serverEnded || !run.clientIdle {
		return "fault-free transfer did not finish: " + run.describe()
	}
	if !run.serverSuccess() || !run.clientSuccess() {
		return "fault-free transfer failed: " + run.describe()
	}
	if cfg.Upload && (!run.uploadDone || run.uploadErr != nil) {
		return "upload result channel: " + run.describe()
	}
	want := vfFreshNames(map[string]bool{}, names, cfg.Overwrite)
	for i := range cs.Paths {
		parent := filepath.Join(base, "src", fmt.Sprintf("p%d", i))
		if m := vfCompareSubtree(parent, names[i], dest, want[i]); m != "" {
			return m + " (" + run.describe() + ")"
		}
		res.intact++
	}
	n, shown, ok := vfParseSaved(run.serverMsg)
	if !ok || n != len(shown) || !vfEqualStrings(shown, vfDedupe(want)) {
		return fmt.Sprintf("final message %q does not list exactly the written names %q", run.serverMsg, vfDedupe(want))
	}
	// transparency afterwards: the session is usable again
	sess.shellOutput([]byte("PROBE-AFTER-TRANSFER\r\n"))
	deadline := time.Now().Add(3 * time.Second)
	for !bytes.Contains(sess.termOut.bytes(), []byte("PROBE-AFTER-TRANSFER")) {
		if time.Now().After(deadline) {
			return "after the transfer server output no longer reaches the terminal"
		}
		time.Sleep(5 * time.Millisecond)
	}
	return ""
}

func vfGenSessOpts(rt *rapid.T, total int64) vfSessOpts {
	var o vfSessOpts
	o.Tunnel = rapid.IntRange(0, 3).Draw(rt, "tunnel") == 0
	o.Relays = rapid.SampledFrom([]int{0, 0, 0, 1, 1, 2}).Draw(rt, "relays")
	o.SegS2C = vfGenSeg(rt, "sess_s2c", total)
	o.SegC2S = vfGenSeg(rt, "sess_c2s", total)
	return o
}

func vfGenC01Sess(rt *rapid.T) vfC01SessCase {
	c := vfGenC01(rt)
	var cs vfC01SessCase
	cs.Cfg, cs.Paths = c.Cfg, c.Paths
	cs.Cfg.WinServer = false
	cs.Cfg.TmuxJunk = false
	cs.Cfg.SegC2S, cs.Cfg.SegS2C = vfSeg{}, vfSeg{}
	var total int64
	for _, p := range cs.Paths {
		for _, f := range p.Tree.Files {
			total += f.Size
		}
	}
	cs.Sess = vfGenSessOpts(rt, total)
	cs.Windows = rapid.IntRange(0, 4).Draw(rt, "client_windows") == 0
	if cs.Sess.Tunnel && rapid.IntRange(0, 2).Draw(rt, "fork") == 0 {
		cs.Cfg.Fork = true // background mode needs the tunnel
		cs.Cfg.Progress = false
	}
	return cs
}

func TestVF_C01Session(t *testing.T) {
	c := vfNewCollector("C01", "TestVF_C01Session")
	vfCheck(t, c, vfGenC01Sess, func(cs vfC01SessCase) string {
		var res vfC01Res
		msg := vfC01SessRun(cs, &res)
		labels := append(vfPairLabels(cs.Cfg), "session_engine")
		if cs.Sess.Tunnel {
			labels = append(labels, "tunnel")
		}
		if cs.Cfg.Fork {
			labels = append(labels, "background_fork_mode")
		}
		labels = append(labels, fmt.Sprintf("relay_hops_%d", cs.Sess.Relays))
		if cs.Windows {
			labels = append(labels, "client_affected_by_windows")
		}
		c.eval(cs, res.intact > 0 && res.bytes > 0, labels...)
		return msg
	})
}

// ---------------------------------------------------------------------------------
// C01: more files in one transfer than the process may hold open at once.
// (a) real tsz / trz children under a low RLIMIT_NOFILE (soft and hard) must complete; (b) a descriptor census on the
// pair engine: descriptors in use must not grow with the number of files already transferred.

func TestVF_C01ManyFiles(t *testing.T) {
	c := vfNewCollector("C01", "TestVF_C01ManyFiles")
	defer vfFlushAll()
	if vfReplayOnly() {
		return
	}
	shard, shards := vfShard()
	job := 0
	for _, upload := range []bool{false, true} {
		for _, mode := range []struct {
			proto     int
			overwrite bool
			dir       bool
		}{{1, false, false}, {1, true, true}, {2, false, false}, {3, true, true}, {4, false, true}, {4, true, true}} {
			for _, engine := range []string{"census", "rlimit"} {
				job++
				if job%shards != shard {
					continue
				}
				cs := map[string]any{"upload": upload, "protocol": mode.proto, "overwrite": mode.overwrite, "directory": mode.dir, "engine": engine, "files": 180}
				msg := vfGuard(func() string { return vfManyFiles(upload, mode.proto, mode.overwrite, mode.dir, engine, 180) })
				c.eval(cs, true, "manyfiles_"+engine)
				if msg != "" {
					c.violation("manyfiles", cs, msg)
					t.Errorf("%v: %s", cs, msg)
				}
			}
		}
	}
}

func vfManyFiles(upload bool, proto int, overwrite, dirMode bool, engine string, n int) string {
	base, err := os.MkdirTemp("", "vfmany")
	if err != nil {
		return "mkdtemp: " + err.Error()
	}
	defer os.RemoveAll(base)
	src := filepath.Join(base, "src")
	dest := filepath.Join(base, "dest")
	os.MkdirAll(dest, 0755)
	var paths []string
	if dirMode {
		os.MkdirAll(filepath.Join(src, "many"), 0755)
		for i := 0; i < n; i++ {
			os.WriteFile(filepath.Join(src, "many", fmt.Sprintf("f%04d", i)), vfContent(vfKindText, uint64(i+1), int64(10+i%50)), 0644)
		}
		paths = []string{filepath.Join(src, "many")}
	} else {
		os.MkdirAll(src, 0755)
		for i := 0; i < n; i++ {
			p := filepath.Join(src, fmt.Sprintf("f%04d", i))
			os.WriteFile(p, vfContent(vfKindText, uint64(i+1), int64(10+i%50)), 0644)
			paths = append(paths, p)
		}
	}
	cfg := vfPairCfg{Upload: upload, Protocol: proto, Overwrite: overwrite, Directory: dirMode, Timeout: 20}
	verify := func() string {
		if dirMode {
			return vfCompareSubtree(src, "many", dest, "many")
		}
		for i := 0; i < n; i++ {
			if m := vfCompareSubtree(src, fmt.Sprintf("f%04d", i), dest, fmt.Sprintf("f%04d", i)); m != "" {
				return m
			}
		}
		return ""
	}
	if engine == "census" {
		r := vfNewPair(cfg)
		baseFD := vfCountFDs()
		maxFD, names := 0, 0
		sender := r.c2s
		if !upload {
			sender = r.s2c
		}
		sender.onMsg = func(m vfMsg, before bool) {
			if m.Typ == "NAME" && !before {
				names++
				if d := vfCountFDs() - baseFD; d > maxFD {
					maxFD = d
				}
			}
		}
		r.run(paths, dest, 120*time.Second)
		if r.hung || r.clientErr != nil || r.serverErr != nil {
			return "fault-free transfer failed: " + r.describe()
		}
		if m := verify(); m != "" {
			return m
		}
		if maxFD > 12 {
			return fmt.Sprintf("descriptors in use grew to %d above the baseline while %d files were transferred (they grow with the file count)", maxFD, n)
		}
		return ""
	}
	// real binary as the limited side: tsz sends (download) / trz receives (upload) under RLIMIT_NOFILE 80
	sess := vfNewSession(vfSessOpts{})
	defer sess.close()
	old := vfBinWrap
	vfBinWrap = []string{"prlimit", "--nofile=80:80"}
	defer func() { vfBinWrap = old }()
	run, err := vfStartTransfer(sess, cfg, paths, dest)
	if err != nil {
		return "cannot start: " + err.Error()
	}
	run.finish(120 * time.Second)
	if !run.serverEnded || !run.serverSuccess() || !run.clientSuccess() {
		return fmt.Sprintf("transfer of %d files with the server limited to 80 open files failed: %s", n, run.describe())
	}
	return verify()
}
