//go:build verif

// C12 — hostile archive streams: what a peer can put INSIDE the data of an archive-mode transfer (entry headers and payload
// bytes) handed to the real archive writer in any segmentation. The writer runs in a goroutine without a recover in the real
// receiver, so a panic here is a crash of the process there. Nothing may be created outside the destination either (C09).

package trzsz

import (
	"encoding/json"
	"fmt"
	"io"
	"os"
	"path/filepath"
	"strings"
	"testing"
	"time"

	"pgregory.net/rapid"
)

type vfArcEntry struct {
	Raw     string         `json:"raw,omitempty"`     // a header line that is not (this) JSON: taken as is
	Fields  map[string]any `json:"fields,omitempty"`  // members of the header object
	NoCode  bool           `json:"no_code,omitempty"` // the header is sent without the base64+zlib coding
	Payload int            `json:"payload"`           // bytes that follow the header
}

type vfC12ArcCase struct {
	Entries []vfArcEntry `json:"entries"`
	Cuts    []int        `json:"cuts"`
	Top     string       `json:"top"` // name of the archive's top-level entry (the NAME message of the transfer)
	Over    bool         `json:"overwrite"`
}

func vfC12ArcRun(cs vfC12ArcCase) string {
	base, err := os.MkdirTemp("", "vfc12a")
	if err != nil {
		return "mkdtemp: " + err.Error()
	}
	defer os.RemoveAll(base)
	dest := filepath.Join(base, "outer", "dest")
	os.MkdirAll(dest, 0755)
	os.WriteFile(filepath.Join(base, "outer", "canary"), []byte("canary"), 0644)
	before, _ := vfSnapshot(filepath.Join(base, "outer"))
	var stream []byte
	for _, e := range cs.Entries {
		var line string
		if e.Fields != nil {
			js, _ := json.Marshal(e.Fields)
			line = string(js)
		} else {
			line = e.Raw
		}
		if !e.NoCode {
			line = encodeString(line)
		}
		stream = append(stream, line...)
		stream = append(stream, '\n')
		stream = append(stream, vfContent(vfKindNoise, uint64(e.Payload)+7, int64(e.Payload))...)
	}
	vfCurCase("TestVF_C12Archive", cs)
	tr := newTransfer(io.Discard, nil, false, nil)
	tr.transferConfig.Overwrite = cs.Over
	tr.transferConfig.Directory = true
	tr.transferConfig.Protocol = kProtocolVersion
	top := &sourceFile{PathID: 0, RelPath: []string{cs.Top}, IsDir: true, Archive: true}
	w, err := tr.newArchiveWriter(dest, top, filepath.Join(dest, cs.Top))
	if err != nil {
		return "" // refused at once: fine
	}
	var scratch []byte
	for _, ch := range vfChunks(stream, cs.Cuts) {
		if err := vfWriteReused(w, ch, &scratch); err != nil {
			break // a refusal is the expected answer to nonsense
		}
	}
	w.Close()
	tr.deleteCreatedFiles()
	after, _ := vfSnapshot(filepath.Join(base, "outer"))
	rel, _ := filepath.Rel(filepath.Join(base, "outer"), dest)
	for k := range after {
		if k == rel || strings.HasPrefix(k, rel+string(os.PathSeparator)) {
			continue
		}
		if _, ok := before[k]; !ok {
			return fmt.Sprintf("an archive entry created %q outside the destination", k)
		}
	}
	if _, ok := after["canary"]; !ok {
		return "the canary next to the destination is gone"
	}
	return ""
}

func vfGenArcEntry(rt *rapid.T) vfArcEntry {
	var e vfArcEntry
	e.Payload = rapid.SampledFrom([]int{0, 0, 1, 5, 40, 300, 5000}).Draw(rt, "payload")
	switch rapid.IntRange(0, 9).Draw(rt, "shape") {
	case 0:
		e.Raw = rapid.SampledFrom([]string{"", "{", "null", "[]", "{}", "\"x\"", "0", "{\"path_name\":null}", "{\"path_name\":[]}", "{\"path_name\":[\"a\"],\"size\":\"5\"}", strings.Repeat("[", 5000)}).Draw(rt, "raw")
		return e
	case 1:
		e.Raw = string(vfGenHostile(rt, "a"))
		e.NoCode = rapid.Bool().Draw(rt, "nocode")
		return e
	}
	f := map[string]any{}
	n := rapid.IntRange(1, 4).Draw(rt, "nelem")
	var names []any
	for i := 0; i < n; i++ {
		names = append(names, rapid.SampledFrom([]string{"top", "a", "b", "sub", "f.bin", "x", "..", ".", "", "./..", "a/b", "/abs", strings.Repeat("n", 300), "\x00", "con", "a\\b"}).Draw(rt, "elem"))
	}
	if rapid.IntRange(0, 9).Draw(rt, "names_kind") == 0 {
		f["path_name"] = rapid.SampledFrom([]any{nil, "top", 5, []any{}, []any{5}, []any{nil}, map[string]any{}}).Draw(rt, "names_odd")
	} else {
		f["path_name"] = names
	}
	f["path_id"] = rapid.SampledFrom([]any{0, 0, 1, -1, 1 << 40, "0", nil, 1.5}).Draw(rt, "pid")
	f["is_dir"] = rapid.SampledFrom([]any{false, false, true, true, nil, "true", 1}).Draw(rt, "isdir")
	f["archive"] = rapid.SampledFrom([]any{false, false, true, nil}).Draw(rt, "archive")
	f["size"] = rapid.SampledFrom([]any{0, 1, 5, int64(e.Payload), int64(e.Payload), int64(e.Payload) + 1, -1, -5, int64(-1) << 62, int64(1) << 40, int64(9223372036854775807), 1e300, "7", nil, 2.5}).Draw(rt, "size")
	f["perm"] = rapid.SampledFrom([]any{nil, 0, 420, 493, 0o7777, 1 << 31, 1<<32 - 1, 1 << 40, -1, "rw"}).Draw(rt, "perm")
	if rapid.IntRange(0, 5).Draw(rt, "drop") == 0 {
		delete(f, rapid.SampledFrom([]string{"path_id", "is_dir", "archive", "size", "perm", "path_name"}).Draw(rt, "dropped"))
	}
	e.Fields = f
	e.NoCode = rapid.IntRange(0, 19).Draw(rt, "nocode2") == 0
	return e
}

func vfGenC12Arc(rt *rapid.T) vfC12ArcCase {
	var cs vfC12ArcCase
	n := rapid.IntRange(1, 6).Draw(rt, "nentries")
	for i := 0; i < n; i++ {
		cs.Entries = append(cs.Entries, vfGenArcEntry(rt))
	}
	cs.Top = rapid.SampledFrom([]string{"top", "top", "a", "..", "x"}).Draw(rt, "top")
	cs.Over = rapid.Bool().Draw(rt, "overwrite")
	nc := rapid.IntRange(0, 12).Draw(rt, "ncuts")
	set := map[int]bool{}
	for i := 0; i < nc; i++ {
		set[rapid.IntRange(1, 6000).Draw(rt, "cut")] = true
	}
	for i := 1; i <= 6000; i++ {
		if set[i] {
			cs.Cuts = append(cs.Cuts, i)
		}
	}
	return cs
}

func TestVF_C12Archive(t *testing.T) {
	c := vfNewCollector("C12", "TestVF_C12Archive")
	vfCheck(t, c, vfGenC12Arc, func(cs vfC12ArcCase) string {
		msg := vfGuardTimed(c, cs, func() string { return vfC12ArcRun(cs) })
		hostile := false
		labels := []string{"archive_stream"}
		for _, e := range cs.Entries {
			if e.Fields == nil {
				hostile = true
				labels = append(labels, "entry_not_an_object")
				continue
			}
			switch v := e.Fields["size"].(type) {
			case int:
				if v < 0 {
					hostile = true
					labels = append(labels, "entry_negative_size")
				}
			case int64:
				if v < 0 {
					hostile = true
					labels = append(labels, "entry_negative_size")
				} else if v > int64(e.Payload) {
					hostile = true
					labels = append(labels, "entry_size_beyond_payload")
				}
			default:
				hostile = true
				labels = append(labels, "entry_size_not_an_integer")
			}
			if d, ok := e.Fields["is_dir"].(bool); ok && d {
				labels = append(labels, "entry_directory")
			}
		}
		c.eval(cs, hostile, labels...)
		return msg
	})
}

// ---------------------------------------------------------------------------------
// C12 in the relay role: whatever the client sends as its action and the server as its configuration - well-formed lines whose
// payload is not the expected object, or is one with hostile members - the relay process survives (its handshake runs in a
// goroutine without a recover) and finds its way back to stand-by.

type vfC12RelayCase struct {
	Tmux bool   `json:"tmux"`
	Win  bool   `json:"win_server"`
	Act  string `json:"act"` // payload of the client's ACT line (coded like every protocol string)
	Cfg  string `json:"cfg"` // payload of the server's CFG line
	Raw  bool   `json:"raw"` // the CFG line is sent without the coding
}

var vfOddJSON = []string{"null", "[]", "{}", "5", "\"x\"", "true", "[null]", "{\"a\":null}", "", "nul", "{"}

var vfActPayloads = []string{
	`{"lang":"go","version":"1.1.8","confirm":true,"newline":"\n","protocol":4,"binary":true,"support_dir":true}`,
	`{"lang":"go","version":"1.1.8","confirm":true,"newline":"\n","protocol":4,"binary":true,"support_dir":true}`,
	`{"confirm":true}`, `{"confirm":true,"protocol":-1}`, `{"confirm":true,"protocol":999999999999}`, `{"confirm":true,"newline":null}`,
	`{"confirm":true,"newline":"!\n","binary":null}`, `{"confirm":"yes"}`, `{"confirm":true,"version":null,"lang":5}`, `{"confirm":true,"tunnel":true}`,
}

var vfCfgPayloads = []string{
	`{"lang":"go","bufsize":10485760,"timeout":20}`, `{"lang":"go","bufsize":10485760,"timeout":20,"binary":true,"escape_chars":[["î","îî"],["~","î1"]]}`,
	`{"bufsize":-1}`, `{"bufsize":0,"timeout":-5}`, `{"bufsize":"10M"}`, `{"timeout":"x"}`, `{"escape_chars":null,"binary":true}`, `{"escape_chars":[["a"]],"binary":true}`,
	`{"escape_chars":[[5,6]],"binary":true}`, `{"escape_chars":"x"}`, `{"tmux_pane_width":-5}`, `{"tmux_pane_width":99999999999}`, `{"tmux_output_junk":"yes"}`, `{"protocol":null}`,
	`{"protocol":-3,"newline":5}`, `{"compress":"maybe"}`, `{"fork":true,"quiet":null}`,
}

func vfC12RelayRun(cs vfC12RelayCase) string {
	vfCurCase("TestVF_C12Relay", cs)
	g := newVfRelayRig(cs.Tmux, 80)
	defer vfCloseWhenIdle(g)
	id := "1234567890100"
	if cs.Win {
		id = "1234567890110"
	}
	g.srvOut.feed([]byte("\x1b7\x07::TRZSZ:TRANSFER:R:1.1.8:" + id + ":0\r\n"))
	if _, ok := vfWaitFor(g.cliOut, 0, "::TRZSZ:TRANSFER", 3*time.Second); !ok {
		return "" // the trigger did not get through in time: nothing to judge
	}
	nl := "\n"
	if cs.Win {
		nl = "!\n"
	}
	g.cliIn.feed(vfEncodeLine("ACT", []byte(cs.Act), "\n"))
	time.Sleep(15 * time.Millisecond)
	if cs.Raw {
		g.srvOut.feed([]byte("#CFG:" + cs.Cfg + nl))
	} else {
		g.srvOut.feed(vfEncodeLine("CFG", []byte(cs.Cfg), nl))
	}
	time.Sleep(40 * time.Millisecond)
	// whatever state this left: both ends give up
	g.cliIn.feed(vfEncodeLine("fail", []byte("giving up"), "\n"))
	g.srvOut.feed(vfEncodeLine("FAIL", []byte("giving up"), nl))
	return ""
}

// vfCloseWhenIdle ends a rig by closing the relay's inputs (EOF) - but only once no handshake worker is busy: a worker that is
// still on its way when the reader sides close their channels writes into a closed channel ("send on closed channel"), which is
// what tearing a relay down in the middle of a handshake looks like, not a reaction to input (see DESIGN §8.3). A relay that does
// not come to rest within half a second (a second trigger hidden in the junk waits for an action for ever) is left as it is.
func vfCloseWhenIdle(g *vfRelayRig) {
	deadline := time.Now().Add(500 * time.Millisecond)
	for time.Now().Before(deadline) {
		if g.relay.relayStatus.Load() != kRelayStandBy {
			time.Sleep(time.Millisecond)
			continue
		}
		time.Sleep(30 * time.Millisecond)
		if g.relay.relayStatus.Load() == kRelayStandBy {
			g.close()
			return
		}
	}
}

func TestVF_C12Relay(t *testing.T) {
	c := vfNewCollector("C12", "TestVF_C12Relay")
	vfCheck(t, c, func(rt *rapid.T) vfC12RelayCase {
		var cs vfC12RelayCase
		cs.Tmux = rapid.IntRange(0, 3).Draw(rt, "tmux") == 0
		cs.Win = rapid.IntRange(0, 5).Draw(rt, "win") == 0
		switch rapid.IntRange(0, 3).Draw(rt, "actkind") {
		case 0:
			cs.Act = rapid.SampledFrom(vfOddJSON).Draw(rt, "act_odd")
		default:
			cs.Act = rapid.SampledFrom(vfActPayloads).Draw(rt, "act")
		}
		switch rapid.IntRange(0, 3).Draw(rt, "cfgkind") {
		case 0:
			cs.Cfg = rapid.SampledFrom(vfOddJSON).Draw(rt, "cfg_odd")
		case 1:
			cs.Cfg = string(vfGenHostile(rt, "cfg_h"))
			cs.Raw = rapid.Bool().Draw(rt, "raw")
		default:
			cs.Cfg = rapid.SampledFrom(vfCfgPayloads).Draw(rt, "cfg")
		}
		return cs
	}, func(cs vfC12RelayCase) string {
		msg := vfGuardTimed(c, cs, func() string { return vfC12RelayRun(cs) })
		odd := false
		labels := []string{"relay_handshake_payloads"}
		for _, o := range vfOddJSON {
			if cs.Act == o {
				odd = true
				labels = append(labels, "act_not_the_expected_object")
			}
			if cs.Cfg == o {
				odd = true
				labels = append(labels, "cfg_not_the_expected_object")
			}
		}
		c.eval(cs, odd || cs.Raw || strings.Contains(cs.Cfg, "null") || strings.Contains(cs.Cfg, "-"), labels...)
		return msg
	})
}
