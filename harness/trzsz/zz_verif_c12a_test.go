//go:build verif

// C12 — hostile archive streams: what a peer can put INSIDE the data of an archive-mode transfer (entry headers and payload
// bytes) handed to the real archive writer in any segmentation. The writer runs in a goroutine without a recover in the real
// receiver, so a panic here is a crash of the process there. Nothing may be created outside the destination either (C09).

package trzsz

import (
	"encoding/json"
	"fmt"
	"io"
	"os"
	"path/filepath"
	"strings"
	"testing"

	"pgregory.net/rapid"
)

type vfArcEntry struct {
	Raw     string         `json:"raw,omitempty"`     // a header line that is not (this) JSON: taken as is
	Fields  map[string]any `json:"fields,omitempty"`  // members of the header object
	NoCode  bool           `json:"no_code,omitempty"` // the header is sent without the base64+zlib coding
	Payload int            `json:"payload"`           // bytes that follow the header
}

type vfC12ArcCase struct {
	Entries []vfArcEntry `json:"entries"`
	Cuts    []int        `json:"cuts"`
	Top     string       `json:"top"` // name of the archive's top-level entry (the NAME message of the transfer)
	Over    bool         `json:"overwrite"`
}

func vfC12ArcRun(cs vfC12ArcCase) string {
	base, err := os.MkdirTemp("", "vfc12a")
	if err != nil {
		return "mkdtemp: " + err.Error()
	}
	defer os.RemoveAll(base)
	dest := filepath.Join(base, "outer", "dest")
	os.MkdirAll(dest, 0755)
	os.WriteFile(filepath.Join(base, "outer", "canary"), []byte("canary"), 0644)
	before, _ := vfSnapshot(filepath.Join(base, "outer"))
	var stream []byte
	for _, e := range cs.Entries {
		var line string
		if e.Fields != nil {
			js, _ := json.Marshal(e.Fields)
			line = string(js)
		} else {
			line = e.Raw
		}
		if !e.NoCode {
			line = encodeString(line)
		}
		stream = append(stream, line...)
		stream = append(stream, '\n')
		stream = append(stream, vfContent(vfKindNoise, uint64(e.Payload)+7, int64(e.Payload))...)
	}
	vfCurCase("TestVF_C12Archive", cs)
	tr := newTransfer(io.Discard, nil, false, nil)
	tr.transferConfig.Overwrite = cs.Over
	tr.transferConfig.Directory = true
	tr.transferConfig.Protocol = kProtocolVersion
	top := &sourceFile{PathID: 0, RelPath: []string{cs.Top}, IsDir: true, Archive: true}
	w, err := tr.newArchiveWriter(dest, top, filepath.Join(dest, cs.Top))
	if err != nil {
		return "" // refused at once: fine
	}
	var scratch []byte
	for _, ch := range vfChunks(stream, cs.Cuts) {
		if err := vfWriteReused(w, ch, &scratch); err != nil {
			break // a refusal is the expected answer to nonsense
		}
	}
	w.Close()
	tr.deleteCreatedFiles()
	after, _ := vfSnapshot(filepath.Join(base, "outer"))
	rel, _ := filepath.Rel(filepath.Join(base, "outer"), dest)
	for k := range after {
		if k == rel || strings.HasPrefix(k, rel+string(os.PathSeparator)) {
			continue
		}
		if _, ok := before[k]; !ok {
			return fmt.Sprintf("an archive entry created %q outside the destination", k)
		}
	}
	if _, ok := after["canary"]; !ok {
		return "the canary next to the destination is gone"
	}
	return ""
}

func vfGenArcEntry(rt *rapid.T) vfArcEntry {
	var e vfArcEntry
	e.Payload = rapid.SampledFrom([]int{0, 0, 1, 5, 40, 300, 5000}).Draw(rt, "payload")
	switch rapid.IntRange(0, 9).Draw(rt, "shape") {
	case 0:
		e.Raw = rapid.SampledFrom([]string{"", "{", "null", "[]", "{}", "\"x\"", "0", "{\"path_name\":null}", "{\"path_name\":[]}", "{\"path_name\":[\"a\"],\"size\":\"5\"}", strings.Repeat("[", 5000)}).Draw(rt, "raw")
		return e
	case 1:
		e.Raw = string(vfGenHostile(rt, "a"))
		e.NoCode = rapid.Bool().Draw(rt, "nocode")
		return e
	}
	f := map[string]any{}
	n := rapid.IntRange(1, 4).Draw(rt, "nelem")
	var names []any
	for i := 0; i < n; i++ {
		names = append(names, rapid.SampledFrom([]string{"top", "a", "b", "sub", "f.bin", "x", "..", ".", "", "./..", "a/b", "/abs", strings.Repeat("n", 300), "\x00", "con", "a\\b"}).Draw(rt, "elem"))
	}
	if rapid.IntRange(0, 9).Draw(rt, "names_kind") == 0 {
		f["path_name"] = rapid.SampledFrom([]any{nil, "top", 5, []any{}, []any{5}, []any{nil}, map[string]any{}}).Draw(rt, "names_odd")
	} else {
		f["path_name"] = names
	}
	f["path_id"] = rapid.SampledFrom([]any{0, 0, 1, -1, 1 << 40, "0", nil, 1.5}).Draw(rt, "pid")
	f["is_dir"] = rapid.SampledFrom([]any{false, false, true, true, nil, "true", 1}).Draw(rt, "isdir")
	f["archive"] = rapid.SampledFrom([]any{false, false, true, nil}).Draw(rt, "archive")
	f["size"] = rapid.SampledFrom([]any{0, 1, 5, int64(e.Payload), int64(e.Payload), int64(e.Payload) + 1, -1, -5, int64(-1) << 62, int64(1) << 40, int64(9223372036854775807), 1e300, "7", nil, 2.5}).Draw(rt, "size")
	f["perm"] = rapid.SampledFrom([]any{nil, 0, 420, 493, 0o7777, 1 << 31, 1<<32 - 1, 1 << 40, -1, "rw"}).Draw(rt, "perm")
	if rapid.IntRange(0, 5).Draw(rt, "drop") == 0 {
		delete(f, rapid.SampledFrom([]string{"path_id", "is_dir", "archive", "size", "perm", "path_name"}).Draw(rt, "dropped"))
	}
	e.Fields = f
	e.NoCode = rapid.IntRange(0, 19).Draw(rt, "nocode2") == 0
	return e
}

func vfGenC12Arc(rt *rapid.T) vfC12ArcCase {
	var cs vfC12ArcCase
	n := rapid.IntRange(1, 6).Draw(rt, "nentries")
	for i := 0; i < n; i++ {
		cs.Entries = append(cs.Entries, vfGenArcEntry(rt))
	}
	cs.Top = rapid.SampledFrom([]string{"top", "top", "a", "..", "x"}).Draw(rt, "top")
	cs.Over = rapid.Bool().Draw(rt, "overwrite")
	nc := rapid.IntRange(0, 12).Draw(rt, "ncuts")
	set := map[int]bool{}
	for i := 0; i < nc; i++ {
		set[rapid.IntRange(1, 6000).Draw(rt, "cut")] = true
	}
	for i := 1; i <= 6000; i++ {
		if set[i] {
			cs.Cuts = append(cs.Cuts, i)
		}
	}
	return cs
}

func TestVF_C12Archive(t *testing.T) {
	c := vfNewCollector("C12", "TestVF_C12Archive")
	vfCheck(t, c, vfGenC12Arc, func(cs vfC12ArcCase) string {
		msg := vfGuardTimed(c, cs, func() string { return vfC12ArcRun(cs) })
		hostile := false
		labels := []string{"archive_stream"}
		for _, e := range cs.Entries {
			if e.Fields == nil {
				hostile = true
				labels = append(labels, "entry_not_an_object")
				continue
			}
			switch v := e.Fields["size"].(type) {
			case int:
				if v < 0 {
					hostile = true
					labels = append(labels, "entry_negative_size")
				}
			case int64:
				if v < 0 {
					hostile = true
					labels = append(labels, "entry_negative_size")
				} else if v > int64(e.Payload) {
					hostile = true
					labels = append(labels, "entry_size_beyond_payload")
				}
			default:
				hostile = true
				labels = append(labels, "entry_size_not_an_integer")
			}
			if d, ok := e.Fields["is_dir"].(bool); ok && d {
				labels = append(labels, "entry_directory")
			}
		}
		c.eval(cs, hostile, labels...)
		return msg
	})
}
