//go:build verif

// C07 — without -y nothing that already exists at the destination is touched (pair engine).

package trzsz

import (
	"fmt"
	"os"
	"path/filepath"
	"strings"
	"testing"
	"time"

	"pgregory.net/rapid"
)

type vfPrior struct {
	Name  string `json:"name"`
	IsDir bool   `json:"dir,omitempty"`
	Size  int64  `json:"size,omitempty"`
	Mode  uint32 `json:"mode,omitempty"`
	Child bool   `json:"child,omitempty"` // directory with nested content
}

type vfC07Case struct {
	Cfg       vfPairCfg   `json:"cfg"`
	Paths     []vfTopPath `json:"paths"`
	Prior     []vfPrior   `json:"prior"`
	Repeats   int         `json:"repeats"`   // number of times the same sources are transferred into the same destination
	BreakWrite int        `json:"break_write,omitempty"` // k > 0: the receiver's k-th write to the sender fails (the link breaks at that protocol step)
	Saturated int         `json:"saturated"` // >=0: index of the path whose name, name.0 .. name.999 all exist
}

func vfC07Run(cs vfC07Case, collisions *int, broken *bool) string {
	base, err := os.MkdirTemp("", "vfc07")
	if err != nil {
		return "mkdtemp: " + err.Error()
	}
	defer func() {
		filepath.Walk(base, func(p string, info os.FileInfo, err error) error {
			if err == nil {
				os.Chmod(p, 0755)
			}
			return nil
		})
		os.RemoveAll(base)
	}()
	dest := filepath.Join(base, "dest")
	os.MkdirAll(dest, 0755)
	var paths, names []string
	tooLong := false
	for i, p := range cs.Paths {
		parent := filepath.Join(base, "src", fmt.Sprintf("p%d", i))
		os.MkdirAll(parent, 0755)
		if err := p.Tree.materialize(parent); err != nil {
			return ""
		}
		paths = append(paths, filepath.Join(parent, p.base()))
		names = append(names, p.base())
		if len(p.base()) > 250 {
			tooLong = true
		}
	}
	existing := map[string]bool{}
	for _, pr := range cs.Prior {
		p := filepath.Join(dest, pr.Name)
		if existing[pr.Name] || len(pr.Name) > 255 {
			continue
		}
		if pr.IsDir {
			if os.MkdirAll(p, 0755) != nil {
				continue
			}
			if pr.Child {
				os.MkdirAll(filepath.Join(p, "inner", "deep"), 0755)
				os.WriteFile(filepath.Join(p, "inner", "old.txt"), []byte("pre-existing nested content"), 0644)
				// the names the incoming tree will use, already present inside the colliding directory
				for _, tp := range cs.Paths {
					for _, f := range tp.Tree.Files {
						if len(f.Rel) == 2 && !f.IsDir {
							os.WriteFile(filepath.Join(p, f.Rel[1]), []byte("OLD "+f.Rel[1]), 0644)
						}
					}
				}
			}
		} else {
			if os.WriteFile(p, vfContent(vfKindText, 77, pr.Size), 0644) != nil {
				continue
			}
		}
		if pr.Mode != 0 {
			os.Chmod(p, os.FileMode(pr.Mode))
		}
		existing[pr.Name] = true
	}
	if cs.Saturated >= 0 && cs.Saturated < len(names) {
		n := names[cs.Saturated]
		for k := -1; k < 1000; k++ {
			nm := n
			if k >= 0 {
				nm = fmt.Sprintf("%s.%d", n, k)
			}
			if !existing[nm] {
				if os.WriteFile(filepath.Join(dest, nm), []byte("x"), 0644) != nil {
					return ""
				}
				existing[nm] = true
			}
		}
	}
	// old mtimes so that a rewrite is visible
	old := time.Now().Add(-48 * time.Hour)
	filepath.Walk(dest, func(p string, info os.FileInfo, err error) error {
		if err == nil && p != dest {
			os.Chtimes(p, old, old)
		}
		return nil
	})
	before, err := vfSnapshot(dest)
	if err != nil {
		return "snapshot: " + err.Error()
	}
	for rep := 0; rep < maxInt(1, cs.Repeats); rep++ {
		// collisions of this round
		for _, n := range names {
			if existing[n] {
				*collisions++
			}
		}
		snapshotNames := map[string]bool{}
		for k := range existing {
			snapshotNames[k] = true
		}
		want := vfFreshNames(existing, names, false)
		vfCurCase("TestVF_C07", cs)
		r := vfNewPair(cs.Cfg)
		r.propagate = true
		if cs.BreakWrite > 0 && rep == maxInt(1, cs.Repeats)-1 {
			// in the last round; the receiver is the server of an upload and the client of a download
			if cs.Cfg.Upload {
				r.s2c.breakAt = cs.BreakWrite
			} else {
				r.c2s.breakAt = cs.BreakWrite
			}
		}
		r.run(paths, dest, 120*time.Second)
		after, err := vfSnapshot(dest)
		if err != nil {
			return "snapshot: " + err.Error()
		}
		// (a) everything that existed before is byte-, mode- and mtime-identical
		for k, b := range before {
			a, ok := after[k]
			if !ok {
				return fmt.Sprintf("round %d: pre-existing %q was removed or renamed (%s)", rep, k, r.describe())
			}
			if a.Dir != b.Dir || a.Sum != b.Sum || a.Size != b.Size || a.Mode != b.Mode || (!a.Dir && a.MT != b.MT) {
				return fmt.Sprintf("round %d: pre-existing %q was modified: %+v -> %+v (%s)", rep, k, b, a, r.describe())
			}
		}
		if cs.BreakWrite > 0 && (r.clientErr != nil || r.serverErr != nil) {
			*broken = true
			return "" // the transfer failed where the link broke; what had existed is untouched (checked above), what is new may stay
		}
		saturated := cs.Saturated >= 0 && cs.Saturated < len(names)
		if saturated {
			if r.clientErr == nil && r.serverErr == nil {
				return fmt.Sprintf("round %d: no fresh name exists for %q but the transfer reported success", rep, names[cs.Saturated])
			}
			// whatever was created before the failing path is new; nothing existing may change (checked above)
			return ""
		}
		if r.hung {
			return fmt.Sprintf("round %d: transfer did not finish: %s", rep, r.describe())
		}
		if r.clientErr != nil || r.serverErr != nil {
			if tooLong {
				return "" // a fresh name beyond the file-name limit cannot be created: failing is the allowed outcome
			}
			return fmt.Sprintf("round %d: fault-free transfer failed: %s", rep, r.describe())
		}
		// (b) each incoming path landed, whole, under the predicted fresh name
		for i := range cs.Paths {
			parent := filepath.Join(base, "src", fmt.Sprintf("p%d", i))
			if m := vfCompareSubtree(parent, names[i], dest, want[i]); m != "" {
				return fmt.Sprintf("round %d: %s (predicted fresh name %q; %s)", rep, m, want[i], r.describe())
			}
		}
		// no other top-level entry appeared
		ents, _ := os.ReadDir(dest)
		for _, e := range ents {
			if !snapshotNames[e.Name()] && !containsString(want, e.Name()) {
				return fmt.Sprintf("round %d: unexpected new entry %q (predicted %q)", rep, e.Name(), want)
			}
		}
		// (c) reported names are the names used
		recv := r.serverNames
		if !cs.Cfg.Upload {
			recv = r.clientNames
		}
		if !vfEqualStrings(recv, vfDedupe(want)) {
			return fmt.Sprintf("round %d: receiver reported %q, names used are %q", rep, recv, vfDedupe(want))
		}
		_, shown, ok := vfParseSaved(r.serverMsg)
		if !ok || !vfEqualStrings(shown, vfDedupe(want)) {
			return fmt.Sprintf("round %d: final message %q does not list the names used %q", rep, r.serverMsg, vfDedupe(want))
		}
		// the newly created entries become pre-existing for the next round
		before = after
	}
	return ""
}

func vfGenC07(rt *rapid.T) vfC07Case {
	var cs vfC07Case
	np := rapid.IntRange(1, 3).Draw(rt, "npaths")
	dirMode := rapid.IntRange(0, 2).Draw(rt, "dirmode") != 0
	var total int64
	var first string
	for i := 0; i < np; i++ {
		name := vfGenFsName(rt, "top")
		if rapid.IntRange(0, 25).Draw(rt, "longname") == 0 {
			name = strings.Repeat("n", rapid.IntRange(250, 255).Draw(rt, "namelen"))
		}
		if i == 0 {
			first = name
		} else if rapid.IntRange(0, 2).Draw(rt, "samebase") == 0 {
			name = first
		}
		var tp vfTopPath
		if dirMode && rapid.Bool().Draw(rt, "topisdir") {
			vfGenDir(rt, &tp.Tree.Files, []string{name}, 1, 2, rapid.IntRange(0, 3).Draw(rt, "fan"), false)
		} else {
			tp.Tree.Files = []vfFile{vfGenFile(rt, []string{name}, "topf", false)}
		}
		for _, f := range tp.Tree.Files {
			total += f.Size
		}
		cs.Paths = append(cs.Paths, tp)
	}
	cs.Cfg = vfGenPairCfg(rt, total)
	cs.Cfg.Overwrite = false
	cs.Cfg.Directory = dirMode
	cs.Cfg.Progress = false
	cs.Repeats = rapid.IntRange(1, 4).Draw(rt, "repeats")
	cs.Saturated = -1
	// prior destination state built around the incoming names
	for _, tp := range cs.Paths {
		n := tp.base()
		isDirIncoming := tp.Tree.Files[0].IsDir
		switch rapid.IntRange(0, 5).Draw(rt, "priorkind") {
		case 0: // nothing
		case 1: // same type collides
			cs.Prior = append(cs.Prior, vfPrior{Name: n, IsDir: isDirIncoming, Size: 33, Child: true})
		case 2: // a file where a directory is needed and vice versa
			cs.Prior = append(cs.Prior, vfPrior{Name: n, IsDir: !isDirIncoming, Size: 5, Child: rapid.Bool().Draw(rt, "child")})
		case 3: // a series with gaps
			cs.Prior = append(cs.Prior, vfPrior{Name: n, Size: 9})
			for k := 0; k < 4; k++ {
				if rapid.Bool().Draw(rt, "gap") {
					cs.Prior = append(cs.Prior, vfPrior{Name: fmt.Sprintf("%s.%d", n, k), IsDir: rapid.Bool().Draw(rt, "serdir"), Size: int64(k), Child: true})
				}
			}
		case 4: // read-only
			cs.Prior = append(cs.Prior, vfPrior{Name: n, IsDir: isDirIncoming, Size: 12, Mode: 0444 | uint32(map[bool]int{true: 0111, false: 0}[isDirIncoming]), Child: false})
		default: // only later members of the series exist
			cs.Prior = append(cs.Prior, vfPrior{Name: n + ".0", Size: 3}, vfPrior{Name: n + ".2", Size: 3})
		}
	}
	cs.Prior = append(cs.Prior, vfPrior{Name: "bystander.txt", Size: 100}, vfPrior{Name: "bystander.d", IsDir: true, Child: true})
	if rapid.IntRange(0, 3).Draw(rt, "breaks") == 0 {
		// the receiver's link to the sender breaks at one of its first protocol steps (the NUM, NAME, SIZE ... acknowledgements)
		cs.BreakWrite = rapid.IntRange(1, 8).Draw(rt, "breakwrite")
	}
	if rapid.IntRange(0, 24).Draw(rt, "saturated") == 0 {
		cs.Saturated = rapid.IntRange(0, np-1).Draw(rt, "satidx")
		cs.Repeats = 1
	}
	return cs
}

func TestVF_C07(t *testing.T) {
	c := vfNewCollector("C07", "TestVF_C07")
	vfCheck(t, c, vfGenC07, func(cs vfC07Case) string {
		coll := 0
		broken := false
		msg := vfC07Run(cs, &coll, &broken)
		labels := vfPairLabels(cs.Cfg)
		if broken {
			labels = append(labels, fmt.Sprintf("link_broke_at_receiver_write_%d", cs.BreakWrite))
		}
		labels = append(labels, fmt.Sprintf("repeats_%d", cs.Repeats))
		if cs.Saturated >= 0 {
			labels = append(labels, "saturated_series")
		}
		if coll > 0 {
			labels = append(labels, "collision")
		}
		c.eval(cs, coll > 0, labels...)
		return msg
	})
}
