//go:build verif

// C12 — no input from the other side can crash the process.
// (a) every parser that sees peer or terminal bytes, under rapid and native fuzzing; (b) the real roles with one or two
// protocol fields replaced by boundary values (MITM on the session engine).

package trzsz

import (
	"bytes"
	"encoding/json"
	"fmt"
	"io"
	"os"
	"path/filepath"
	"strconv"
	"strings"
	"testing"
	"time"

	"pgregory.net/rapid"
)

// ---------------------------------------------------------------------------------
// (a) parsers

var vfHostileTokens = []string{
	"::TRZSZ:TRANSFER:", "::TRZSZ:TRANSFER:S:1.1.8:1234567890120:65536", "::TRZSZ:TRANSFER:R:4294967296.0.0", ":99999999999999999999", "%output %1 ", "%extended-output %2 3 : ",
	"#R", "Saved", "#CFG:", "\x1bP=", "\x1b\\", "\x1b]52;", "c;", "p;", "\a", "\x1b[", "\x1b[20", "\x1b[200~", "\x1b[201~", "H", "\x1b[H", "\x1b[25;119H", "!", "!\n", "\r\n", "\n", "\x03",
	"**\x18B0", "**\x18B0100000023be50", "**\x18B08", "\x18\x18\x18\x18\x18", "cannot open ", "/", "'/", "' ", " ", "\\ ", "C:\\", "\"C:\\", "\"", "/c/", "'/cygdrive/c/", "/cygdrive/c/", "\x10/",
	"send -t %1 0x3\r", "send -lt %2 abc;", "send -t %3 0x1b 0x5b 0x42\r", "0x", "#SUCC:", "#DATA:", "eJw", "=", "AAAA", "-1", "9223372036854775807", "18446744073709551616", "1e9", "k", "gb", "1024",
	"{\"path_name\":[\"a\"]}", "[[\"\\u00ee\",\"\\u00ee\\u00ee\"]]", "[[1,2]]", "[[\"ab\",\"c\"]]", "null", "\xee", "\xee\xee", "~", "\x00", "\xff\xfe",
}

func vfGenHostile(rt *rapid.T, label string) []byte {
	var b bytes.Buffer
	n := rapid.IntRange(0, 12).Draw(rt, label+"_n")
	for i := 0; i < n; i++ {
		switch rapid.IntRange(0, 3).Draw(rt, label+"_k") {
		case 0:
			b.Write(rapid.SliceOfN(rapid.Byte(), 0, 20).Draw(rt, label+"_raw"))
		case 1:
			b.WriteString(strconv.FormatInt(rapid.Int64().Draw(rt, label+"_int"), 10))
		default:
			b.WriteString(rapid.SampledFrom(vfHostileTokens).Draw(rt, label+"_tok"))
		}
	}
	return b.Bytes()
}

type vfC12ParseCase struct {
	Chunks [][]byte `json:"chunks"`
	Flags  int      `json:"flags"` // bit0 windows flag, bit1..2 runtime platform for drag detection
}

var vfParserState struct {
	det1, det2 *trzszDetector
	filter     *TrzszFilter
}

// vfC12Parsers feeds the chunks to every parser; a panic is converted into a message by the caller's guard.
func vfC12Parsers(cs vfC12ParseCase) string {
	oldW, oldL, oldM, oldR := windowsEnvironment, linuxRuntime, macosRuntime, windowsRuntime
	defer func() { windowsEnvironment, linuxRuntime, macosRuntime, windowsRuntime = oldW, oldL, oldM, oldR }()
	defer vfStubClipboard()()
	windowsEnvironment = cs.Flags&1 != 0
	switch (cs.Flags >> 1) & 3 {
	case 1:
		linuxRuntime, macosRuntime, windowsRuntime = false, true, false
	case 2:
		linuxRuntime, macosRuntime, windowsRuntime = false, false, true
	default:
		linuxRuntime, macosRuntime, windowsRuntime = true, false, false
	}
	det1 := newTrzszDetector(false, false)
	det2 := newTrzszDetector(true, true)
	filter := &TrzszFilter{}
	pr, pw := io.Pipe()
	go io.Copy(io.Discard, pr)
	defer pw.Close()
	tr := newTransfer(io.Discard, nil, false, nil)
	for _, ch := range cs.Chunks {
		in := append([]byte(nil), ch...)
		out, trig := det1.detectTrzsz(in, true)
		if trig == nil && !bytes.Equal(out, ch) {
			return fmt.Sprintf("client detector changed a chunk without starting a transfer: %s -> %s", vfShort(ch, 80), vfShort(out, 80))
		}
		det2.detectTrzsz(append([]byte(nil), ch...), false)
		detectZmodem(ch)
		filter.detectOSC52(append([]byte(nil), ch...))
		detectDragFiles(append([]byte(nil), ch...))
		filter.transformPromptInput(pw, append([]byte(nil), ch...))
		var et escapeTable
		_ = json.Unmarshal(ch, &et)
		var cfg transferConfig
		_ = json.Unmarshal(ch, &cfg)
		var act transferAction
		_ = json.Unmarshal(ch, &act)
		if len(ch) < 4096 {
			if b, err := decodeString(string(ch)); err == nil && len(b) > 64<<20 {
				return "decodeString produced more than 64 MiB from a short line"
			}
		}
		_, _ = unmarshalSourceFile(string(ch))
		_, _ = unmarshalTargetFile(string(ch))
		_, _ = parseTrzszVersion(string(ch))
		var bs bufferSize
		_ = bs.UnmarshalText(ch)
		var ct compressType
		_ = ct.UnmarshalText(ch)
		v := trimVT100(ch)
		if len(v) > len(ch) {
			return "trimVT100 grew its input"
		}
		s := tr.stripTmuxStatusLine(append([]byte(nil), ch...))
		if len(s) > len(ch) {
			return "stripTmuxStatusLine grew its input"
		}
		if _, err := decodeRelayBufferString("ACT", ch); err == nil {
			_ = err
		}
	}
	// line readers: each gets the whole stream plus a terminator that completes any pending read
	for i := 0; i < 3; i++ {
		lb := newTrzszBuffer()
		for _, ch := range cs.Chunks {
			lb.addBuffer(append([]byte(nil), ch...))
		}
		to := time.NewTimer(5 * time.Second)
		var err error
		switch i {
		case 0:
			lb.addBuffer([]byte("x\n\n"))
			_, err = lb.readLine(true, to.C)
		case 1:
			lb.addBuffer([]byte("A!\nA!\nA!\n"))
			_, err = lb.readLineOnWindows(to.C)
		default:
			lb.addBuffer([]byte("\n"))
			_, err = lb.readLine(false, to.C)
		}
		to.Stop()
		if err == errReceiveDataTimeout {
			return fmt.Sprintf("line reader %d did not complete although a terminator had arrived", i)
		}
	}
	return ""
}

func vfGenC12Parse(rt *rapid.T) vfC12ParseCase {
	var cs vfC12ParseCase
	n := rapid.IntRange(1, 5).Draw(rt, "nchunks")
	for i := 0; i < n; i++ {
		cs.Chunks = append(cs.Chunks, vfGenHostile(rt, "c"))
	}
	cs.Flags = rapid.IntRange(0, 7).Draw(rt, "flags")
	return cs
}

func TestVF_C12Parsers(t *testing.T) {
	c := vfNewCollector("C12", "TestVF_C12Parsers")
	vfCheck(t, c, vfGenC12Parse, func(cs vfC12ParseCase) string {
		msg := vfC12Parsers(cs)
		total := 0
		for _, ch := range cs.Chunks {
			total += len(ch)
		}
		c.eval(cs, total > 0, "parsers", fmt.Sprintf("platform_flags_%d", cs.Flags))
		return msg
	})
}

func FuzzVF_C12Parsers(f *testing.F) {
	for _, tok := range vfHostileTokens {
		f.Add([]byte(tok), byte(0))
	}
	f.Add([]byte("\x1b7\x07::TRZSZ:TRANSFER:S:1.1.8:1234567890100:12345\r\n"), byte(1))
	f.Add([]byte("#SUCC:eJzy8XR29Qt21TMCBAAA//8MnwJk!\n"), byte(3))
	f.Fuzz(func(t *testing.T, data []byte, flags byte) {
		var cs vfC12ParseCase
		cs.Flags = int(flags & 7)
		// split into up to three chunks at 0xFF bytes
		cs.Chunks = bytes.SplitN(data, []byte{0xff, 0x00}, 3)
		if msg := vfGuard(func() string { return vfC12Parsers(cs) }); msg != "" {
			t.Fatalf("%s", msg)
		}
	})
}

// ---------------------------------------------------------------------------------
// (b) roles under field mutation

type vfRewrite struct {
	Dir   string `json:"dir"`   // direction of the message that is rewritten (the receiver is the victim)
	Typ   string `json:"typ"`   // message type
	Nth   int    `json:"nth"`   // occurrence of that type in that direction
	Field string `json:"field"` // JSON member, "len" / "step" for acks, "" for the whole body
	Value string `json:"value"` // int:<n> | raw:<text> | json:<json> | big:<n> | trunc:<n> | str:<payload to encode>
}

type vfC12Case struct {
	Scen     vfScenario  `json:"scenario"`
	Rewrites []vfRewrite `json:"rewrites"`
}

type vfC12Res struct {
	applied int
	outcome string
}

func vfApplyValue(body []byte, rw vfRewrite, newline string, typ string) []byte {
	kind, arg, _ := strings.Cut(rw.Value, ":")
	enc := func(payload []byte) []byte { return vfEncodeLine(typ, payload, newline) }
	rawLine := func(b string) []byte { return []byte("#" + typ + ":" + b + newline) }
	txt := string(bytes.TrimRight(body, "!\n"))
	// structured members
	isAck := strings.Count(txt, "/") == 1 && strings.Trim(txt, "0123456789/") == ""
	if (rw.Field == "len" || rw.Field == "step") && isAck {
		parts := strings.SplitN(txt, "/", 2)
		if len(parts) == 2 {
			if rw.Field == "len" {
				parts[0] = arg
			} else {
				parts[1] = arg
			}
			return rawLine(strings.Join(parts, "/"))
		}
		return nil
	}
	if rw.Field != "" {
		js, err := vfDecodeLine([]byte("#" + typ + ":" + txt))
		if err != nil {
			return nil
		}
		var obj map[string]json.RawMessage
		if json.Unmarshal(js, &obj) != nil {
			return nil
		}
		switch kind {
		case "int":
			obj[rw.Field] = json.RawMessage(arg)
		case "json":
			obj[rw.Field] = json.RawMessage(arg)
		case "str":
			q, _ := json.Marshal(arg)
			obj[rw.Field] = q
		case "big":
			n, _ := strconv.Atoi(arg)
			q, _ := json.Marshal(strings.Repeat("A", n))
			obj[rw.Field] = q
		case "del":
			delete(obj, rw.Field)
		default:
			return nil
		}
		out, _ := json.Marshal(obj)
		return enc(out)
	}
	switch kind {
	case "int", "raw":
		return rawLine(arg)
	case "str":
		return enc([]byte(arg))
	case "big":
		n, _ := strconv.Atoi(arg)
		return rawLine(strings.Repeat("A", n))
	case "bigstr":
		n, _ := strconv.Atoi(arg)
		return enc(bytes.Repeat([]byte("A"), n))
	case "trunc":
		n, _ := strconv.Atoi(arg)
		if n < len(txt) {
			return rawLine(txt[:n])
		}
		return rawLine("")
	}
	return nil
}

func vfInstallRewrites(sess *vfSession, rws []vfRewrite, applied *int) {
	for _, dir := range []string{"c2s", "s2c"} {
		link := sess.c2s
		if dir == "s2c" {
			link = sess.s2c
		}
		counts := map[string]int{}
		var mine []vfRewrite
		for _, rw := range rws {
			if rw.Dir == dir {
				mine = append(mine, rw)
			}
		}
		if len(mine) == 0 {
			continue
		}
		link.rewrites = append(link.rewrites, func(m vfMsg, line []byte) []byte {
			n := counts[m.Typ]
			counts[m.Typ]++
			for _, rw := range mine {
				if rw.Typ == m.Typ && rw.Nth == n {
					nl := "\n"
					if bytes.HasSuffix(line, []byte("!\n")) {
						nl = "!\n"
					}
					i := bytes.IndexByte(line, ':')
					if i < 0 {
						return nil
					}
					if out := vfApplyValue(line[i+1:], rw, nl, m.Typ); out != nil {
						*applied++
						return out
					}
				}
			}
			return nil
		})
	}
}

func vfSelfHWMKB() int64 {
	b, err := os.ReadFile("/proc/self/status")
	if err != nil {
		return 0
	}
	for _, l := range strings.Split(string(b), "\n") {
		if strings.HasPrefix(l, "VmHWM:") {
			f := strings.Fields(l)
			if len(f) >= 2 {
				v, _ := strconv.ParseInt(f[1], 10, 64)
				return v
			}
		}
	}
	return 0
}

func vfC12Run(cs vfC12Case, res *vfC12Res) string {
	sc := cs.Scen
	e, err := vfScenSetup(sc)
	if err != nil {
		return "setup: " + err.Error()
	}
	defer e.cleanup()
	vfCurCase("TestVF_C12Roles", cs)
	hwm0 := vfSelfHWMKB()
	sess := vfNewSession(sc.Sess)
	defer sess.close()
	vfInstallRewrites(sess, cs.Rewrites, &res.applied)
	run, err := vfStartTransfer(sess, sc.Cfg, e.paths, e.dest)
	if err != nil {
		return "cannot start: " + err.Error()
	}
	run.finish(80 * time.Second)
	stderr := sess.serverStderr()
	if os.Getenv("VERIF_DEBUG") != "" {
		fmt.Fprintf(os.Stderr, "DEBUG C12: applied=%d %s\n", res.applied, run.describe())
		for _, m := range sess.c2s.messages() {
			fmt.Fprintf(os.Stderr, "  c2s %d %s %q\n", m.Idx, m.Typ, m.Txt)
		}
	}
	if strings.Contains(stderr, "panic:") || strings.Contains(stderr, "fatal error:") || strings.Contains(stderr, "goroutine ") {
		return fmt.Sprintf("the server process crashed on peer input %+v:\n%s", cs.Rewrites, vfTrunc(stderr, 2500))
	}
	if strings.Contains(run.serverMsg, "[TrzszError] panic") || strings.Contains(run.clientText, "[TrzszError] panic") {
		// a recovered panic still means peer input drove the code into an impossible state
		return fmt.Sprintf("peer input %+v caused a (recovered) panic: %s", cs.Rewrites, run.describe())
	}
	if !run.serverEnded || !run.clientIdle {
		return fmt.Sprintf("malformed input %+v left a side running: %s", cs.Rewrites, run.describe())
	}
	if sess.exitCode != 0 && sess.exitCode != -1 {
		return fmt.Sprintf("the server exited with status %d on peer input %+v: %s", sess.exitCode, cs.Rewrites, run.describe())
	}
	if d := vfSelfHWMKB() - hwm0; d > 512*1024 && sc.Cfg.Bufsize <= 10<<20 {
		return fmt.Sprintf("the client's resident high-water mark grew by %d MiB on peer input %+v", d/1024, cs.Rewrites)
	}
	if run.serverSuccess() && run.clientSuccess() {
		res.outcome = "success"
	} else {
		res.outcome = "error_reported"
	}
	// the session stays usable
	marker := []byte("<<PROBE-AFTER-MALFORMED-INPUT>>")
	sess.shellOutput(marker)
	deadline := time.Now().Add(5 * time.Second)
	for !bytes.Contains(sess.termOut.bytes(), marker) {
		if time.Now().After(deadline) {
			return fmt.Sprintf("after malformed input %+v the session is not usable: server output no longer reaches the terminal (%s)", cs.Rewrites, run.describe())
		}
		time.Sleep(5 * time.Millisecond)
	}
	return ""
}

var vfIntValues = []string{"-1", "0", "1", "2147483647", "2147483648", "4294967297", "1099511627776", "4611686018427387904", "9223372036854775807", "-9223372036854775808", "18446744073709551616", "abc", "", "1.5", " 7", "0x10"}

func vfGenRewrite(rt *rapid.T, upload bool) vfRewrite {
	var rw vfRewrite
	sender, receiver := "s2c", "c2s"
	if upload {
		sender, receiver = "c2s", "s2c"
	}
	iv := func() string { return "int:" + rapid.SampledFrom(vfIntValues).Draw(rt, "ival") }
	rw.Nth = rapid.IntRange(0, 4).Draw(rt, "nth")
	target := rapid.IntRange(0, 17).Draw(rt, "target")
	if target >= 14 {
		target = []int{2, 2, 7, 3}[target-14]
	}
	switch target {
	case 0:
		rw.Dir, rw.Typ, rw.Value = sender, "NUM", iv()
		rw.Nth = 0
	case 1:
		rw.Dir, rw.Typ, rw.Value = sender, "SIZE", iv()
	case 2:
		rw.Dir, rw.Typ, rw.Value = sender, "DATA", iv() // binary header length (or the whole base64 body)
		rw.Nth = rapid.IntRange(0, 12).Draw(rt, "nthdata")
	case 3:
		rw.Dir, rw.Typ = receiver, "SUCC"
		rw.Field = rapid.SampledFrom([]string{"len", "step"}).Draw(rt, "ackfield")
		rw.Value = iv()
		rw.Nth = rapid.IntRange(2, 30).Draw(rt, "nthack")
	case 4:
		rw.Dir, rw.Typ, rw.Value = receiver, "SUCC", iv() // NUM/SIZE echo or final ack, depending on Nth
		rw.Nth = rapid.IntRange(0, 30).Draw(rt, "nthsucc")
	case 5:
		rw.Dir, rw.Typ = sender, "NAME"
		rw.Field = rapid.SampledFrom([]string{"path_id", "path_name", "is_dir", "archive", "size", "perm"}).Draw(rt, "namefield")
		rw.Value = rapid.SampledFrom([]string{"int:-1", "int:2147483648", "int:4611686018427387904", "json:[]", "json:[[]]", "json:null", "json:\"x\"", "json:[1,2]", "json:{}", "json:true",
			"json:[\"a\",\"b\",\"c\",\"d\"]", "big:1048576", "del:", "int:99999999999999999999"}).Draw(rt, "nameval")
	case 6:
		rw.Dir, rw.Typ = sender, "NAME"
		rw.Value = rapid.SampledFrom([]string{"raw:", "raw:!!!!", "raw:eJw=", "trunc:7", "str:", "str:{", "str:{\"path_name\":[]}", "str:[]", "str:null", "bigstr:1048576", "big:1048576", "str:\x00"}).Draw(rt, "nameraw")
	case 7:
		rw.Dir, rw.Typ = sender, "HASH"
		rw.Field = rapid.SampledFrom([]string{"step", "hash", "over"}).Draw(rt, "hashfield")
		rw.Value = rapid.SampledFrom([]string{"int:-1", "int:0", "int:1", "int:2147483648", "int:4611686018427387904", "int:9223372036854775807", "json:\"x\"", "json:null", "json:true", "str:zz", "big:1048576", "del:"}).Draw(rt, "hashval")
	case 8:
		rw.Dir, rw.Typ = receiver, "SUCC" // hash ack / target file JSON
		rw.Field = rapid.SampledFrom([]string{"step", "match", "name", "size"}).Draw(rt, "succfield")
		rw.Value = rapid.SampledFrom([]string{"int:-1", "int:0", "int:4611686018427387904", "int:9223372036854775807", "json:\"x\"", "json:null", "json:true", "json:[]", "big:1048576"}).Draw(rt, "succval")
		rw.Nth = rapid.IntRange(0, 8).Draw(rt, "nthsuccjson")
	case 9:
		rw.Dir, rw.Typ = sender, "COMP"
		rw.Value = rapid.SampledFrom([]string{"raw:maybe", "raw:", "raw:TRUE", "raw:1", "big:100000"}).Draw(rt, "compval")
	case 10:
		rw.Dir, rw.Typ = sender, "MD5"
		rw.Value = rapid.SampledFrom([]string{"raw:", "raw:!!", "trunc:5", "str:", "str:short", "bigstr:1048576"}).Draw(rt, "md5val")
	case 11:
		rw.Dir, rw.Typ = "c2s", "EXIT"
		rw.Nth = 0
		rw.Value = rapid.SampledFrom([]string{"raw:", "raw:!!", "trunc:5", "bigstr:1048576", "str:\x1b[2J\x1b]52;c;AAAA\x07"}).Draw(rt, "exitval")
	case 12:
		rw.Dir, rw.Typ = "s2c", "CFG"
		rw.Nth = 0
		rw.Field = rapid.SampledFrom([]string{"bufsize", "timeout", "protocol", "escape_chars", "tmux_pane_width", "binary", "directory", "overwrite", "quiet", "newline", "compress", "fork", "tmux_output_junk"}).Draw(rt, "cfgfield")
		rw.Value = rapid.SampledFrom([]string{"int:-1", "int:0", "int:1", "int:2147483648", "int:4611686018427387904", "int:99999999999999999999", "json:\"x\"", "json:null", "json:true", "json:[]", "json:[[1,2]]",
			"json:[[\"a\",\"bc\"]]", "json:[[\"\\u00ee\",\"\\u00ee\\u00ee\"],[\"~\",\"\\u00ee1\"],[\"A\",\"\\u00ee1\"]]", "json:{}", "str:!\n", "str:", "big:100000"}).Draw(rt, "cfgval")
	default:
		rw.Dir, rw.Typ = "c2s", "ACT"
		rw.Nth = 0
		rw.Field = rapid.SampledFrom([]string{"protocol", "newline", "binary", "support_dir", "confirm", "tunnel", "fork", "version", "lang"}).Draw(rt, "actfield")
		rw.Value = rapid.SampledFrom([]string{"int:-1", "int:0", "int:9", "int:2147483648", "int:99999999999999999999", "json:\"x\"", "json:null", "json:true", "json:[]", "json:{}", "str:", "str:!\n", "str:\r\n", "big:100000"}).Draw(rt, "actval")
	}
	return rw
}

func vfGenC12(rt *rapid.T) vfC12Case {
	var cs vfC12Case
	scens := vfScenarios()
	cs.Scen = scens[rapid.IntRange(0, len(scens)-1).Draw(rt, "scenario")]
	cs.Scen.Cfg.Timeout = 2
	cs.Scen.Cfg.Progress = rapid.Bool().Draw(rt, "progress")
	cs.Scen.Cfg.Binary = rapid.Bool().Draw(rt, "binary")
	cs.Scen.Size = rapid.SampledFrom([]int64{3000, 30000}).Draw(rt, "size")
	n := rapid.IntRange(1, 2).Draw(rt, "nrewrites")
	for i := 0; i < n; i++ {
		rw := vfGenRewrite(rt, cs.Scen.Cfg.Upload)
		if rw.Typ == "DATA" && cs.Scen.Cfg.Protocol >= 2 {
			cs.Scen.Cfg.Binary = true // the length field exists in binary mode only
		}
		if rw.Typ == "HASH" && !cs.Scen.Cfg.Overwrite {
			cs.Scen.Cfg.Overwrite, cs.Scen.Pre = true, "prefix"
			if cs.Scen.Cfg.Protocol < 3 {
				cs.Scen.Cfg.Protocol = 3
			}
		}
		cs.Rewrites = append(cs.Rewrites, rw)
		// a length field may be validated against another peer-supplied field: inflate the companion field consistently
		if rw.Typ == "HASH" && rw.Field == "step" && strings.HasPrefix(rw.Value, "int:") && rapid.Bool().Draw(rt, "companion") {
			sender := "s2c"
			if cs.Scen.Cfg.Upload {
				sender = "c2s"
			}
			if cs.Scen.Cfg.Protocol >= 4 {
				cs.Rewrites = append(cs.Rewrites, vfRewrite{Dir: sender, Typ: "NAME", Nth: rw.Nth, Field: "size", Value: rw.Value})
			} else {
				cs.Rewrites = append(cs.Rewrites, vfRewrite{Dir: sender, Typ: "SIZE", Nth: rw.Nth, Value: rw.Value})
			}
			break
		}
		if rw.Typ == "DATA" && strings.HasPrefix(rw.Value, "int:") && rapid.IntRange(0, 2).Draw(rt, "companion_cfg") == 0 {
			cs.Rewrites = append(cs.Rewrites, vfRewrite{Dir: "s2c", Typ: "CFG", Nth: 0, Field: "bufsize", Value: rw.Value})
			break
		}
	}
	return cs
}

// vfC12Known: cases in the region of a listed finding are excluded by construction (and counted).
func vfC12Known(cs vfC12Case) string {
	return ""
}

func TestVF_C12Roles(t *testing.T) {
	c := vfNewCollector("C12", "TestVF_C12Roles")
	vfCheck(t, c, vfGenC12, func(cs vfC12Case) string {
		if id := vfC12Known(cs); id != "" && vfKnown(id) {
			c.exclude(1)
			return ""
		}
		var res vfC12Res
		msg := vfC12Run(cs, &res)
		labels := []string{"roles", "scenario_" + cs.Scen.Name, "outcome_" + res.outcome}
		for _, rw := range cs.Rewrites {
			victim := "victim_client"
			if rw.Dir == "c2s" {
				victim = "victim_server"
			}
			labels = append(labels, "mutated_"+rw.Typ, victim)
		}
		if cs.Scen.Cfg.Progress {
			labels = append(labels, "progress_attached")
		}
		c.eval(cs, res.applied > 0, labels...)
		return msg
	})
}

var _ = filepath.Join

// ---------------------------------------------------------------------------------
// (c) hostile entries: the real sender is handed a poisoned source list (sizes, kinds, ids and permissions that do not
// match the files), so NAME messages and archive entry headers inside the data stream carry boundary values while both
// ends still run real code. The receiver must end with an error or a correct result - never crash, never hang.

type vfEntryMut struct {
	Idx   int    `json:"idx"`   // which scanned entry (modulo their number)
	Field string `json:"field"` // size isdir pathid perm archive
	Val   int64  `json:"val"`
}

type vfC12HostileCase struct {
	Cfg  vfPairCfg    `json:"cfg"`
	Tree vfTree       `json:"tree"`
	Muts []vfEntryMut `json:"muts"`
}

func vfC12HostileRun(cs vfC12HostileCase) string {
	base, err := os.MkdirTemp("", "vfc12h")
	if err != nil {
		return "mkdtemp: " + err.Error()
	}
	defer os.RemoveAll(base)
	src := filepath.Join(base, "src")
	dest := filepath.Join(base, "dest")
	os.MkdirAll(src, 0755)
	os.MkdirAll(dest, 0755)
	if err := cs.Tree.materialize(src); err != nil {
		return ""
	}
	vfCurCase("TestVF_C12Hostile", cs)
	r := vfNewPair(cs.Cfg)
	r.propagate = true
	r.hostile = func(files []*sourceFile) []*sourceFile {
		for _, m := range cs.Muts {
			if len(files) == 0 {
				break
			}
			f := files[((m.Idx%len(files))+len(files))%len(files)]
			switch m.Field {
			case "size":
				f.Size = m.Val
			case "isdir":
				f.IsDir = m.Val != 0
			// path ids are not poisoned here: the sender's own archive grouping indexes by them (local state, not peer input)
			case "perm":
				if m.Val < 0 {
					f.Perm = nil
				} else {
					p := uint32(m.Val)
					f.Perm = &p
				}
			}
		}
		return files
	}
	r.run([]string{filepath.Join(src, cs.Tree.Files[0].Rel[0])}, dest, 40*time.Second)
	if r.hung {
		return fmt.Sprintf("hostile entries %+v left the transfer hanging: %s", cs.Muts, r.describe())
	}
	for _, e := range []error{r.clientErr, r.serverErr} {
		if e != nil && strings.Contains(e.Error(), "[TrzszError] panic") {
			return fmt.Sprintf("hostile entries %+v caused a recovered panic: %v", cs.Muts, e)
		}
	}
	return ""
}

func vfGenC12Hostile(rt *rapid.T) vfC12HostileCase {
	var cs vfC12HostileCase
	vfGenDir(rt, &cs.Tree.Files, []string{"hroot"}, 1, 2, rapid.IntRange(1, 4).Draw(rt, "fan"), false)
	for i := range cs.Tree.Files {
		if cs.Tree.Files[i].Size > 3000 {
			cs.Tree.Files[i].Size = 3000
		}
	}
	cs.Cfg = vfGenPairCfg(rt, 1000)
	cs.Cfg.Directory = true
	cs.Cfg.Timeout = 2
	cs.Cfg.WinServer = false
	cs.Cfg.TmuxJunk = false
	cs.Cfg.Progress = rapid.Bool().Draw(rt, "progress")
	cs.Cfg.Protocol = rapid.SampledFrom([]int{2, 3, 4, 4, 4}).Draw(rt, "proto")
	n := rapid.IntRange(1, 3).Draw(rt, "nmuts")
	for i := 0; i < n; i++ {
		m := vfEntryMut{Idx: rapid.IntRange(0, 12).Draw(rt, "idx"), Field: rapid.SampledFrom([]string{"size", "size", "isdir", "perm"}).Draw(rt, "field")}
		switch m.Field {
		case "size":
			// non-negative only: the sender's own reader slices by this value (local state); negative sizes reach the receiver
			// through the NAME rewrites of TestVF_C12Roles instead
			m.Val = rapid.SampledFrom([]int64{0, 1, 2, 511, 100000, 1 << 31, 1 << 40, 1 << 62}).Draw(rt, "sizeval")
		case "isdir":
			m.Val = int64(rapid.IntRange(0, 1).Draw(rt, "isdirval"))
		default:
			m.Val = rapid.SampledFrom([]int64{-1, 0, 0777, 04777, 0xffffffff}).Draw(rt, "permval")
		}
		cs.Muts = append(cs.Muts, m)
	}
	return cs
}

func TestVF_C12Hostile(t *testing.T) {
	c := vfNewCollector("C12", "TestVF_C12Hostile")
	vfCheck(t, c, vfGenC12Hostile, func(cs vfC12HostileCase) string {
		msg := vfC12HostileRun(cs)
		labels := append(vfPairLabels(cs.Cfg), "hostile_entries")
		for _, m := range cs.Muts {
			labels = append(labels, "poisoned_"+m.Field)
		}
		c.eval(cs, true, labels...)
		return msg
	})
}
