//go:build verif

// C05 — the wrapper is transparent whenever no transfer is in progress (session engine, generated histories).

package trzsz

import (
	"bytes"
	"fmt"
	"os"
	"os/exec"
	"path/filepath"
	"regexp"
	"sync"
	"sync/atomic"
	"syscall"
	"testing"
	"time"

	"pgregory.net/rapid"
)

type vfC05Act struct {
	Kind    string   `json:"kind"` // out | in | transfer
	Chunks  [][]byte `json:"chunks,omitempty"`
	Outcome string   `json:"outcome,omitempty"` // succeeded refused failed stopped
	Upload  bool     `json:"upload,omitempty"`
	Early   bool     `json:"early,omitempty"` // stopped / sigint only: the end comes while the server is held before it has seen the action
}

type vfC05Case struct {
	Sess vfSessOpts `json:"sess"`
	Acts []vfC05Act `json:"acts"`
}

var vfClipMu sync.Mutex
var vfClipboard [][]byte

func vfStubClipboard() func() {
	old := writeToClipboard
	writeToClipboard = func(buf []byte) {
		vfClipMu.Lock()
		vfClipboard = append(vfClipboard, append([]byte(nil), buf...))
		vfClipMu.Unlock()
	}
	return func() { writeToClipboard = old }
}

// vfWaitLen waits until rec holds at least n bytes or the limit passes.
func vfWaitLen(rec *vfRecorder, n int, limit time.Duration) {
	deadline := time.Now().Add(limit)
	for rec.len() < n && time.Now().Before(deadline) {
		time.Sleep(200 * time.Microsecond)
	}
}

// vfQuiesce waits until nothing has been written to rec for d.
func vfQuiesce(rec *vfRecorder, d, limit time.Duration) {
	deadline := time.Now().Add(limit)
	for time.Now().Before(deadline) {
		rec.mu.Lock()
		last := rec.lastAt
		rec.mu.Unlock()
		if time.Since(last) >= d {
			return
		}
		time.Sleep(d / 4)
	}
}

var vfZmodemInit = regexp.MustCompile(`\*\*\x18B0(0|1)[0-9a-f]{12}`)

// vfC05Excluded: chunks the property itself excludes (a complete trigger, a complete zmodem header, trace-log markers).
func vfC05Excluded(chunk []byte) bool {
	if vfRefParse(chunk) != nil || bytes.Contains(chunk, []byte(vfMarker)) && len(chunk) >= 24 && trzszRegexp.Match(chunk) {
		return true
	}
	if vfZmodemInit.Match(chunk) {
		return true
	}
	if bytes.Contains(chunk, []byte("<ENABLE_TRZSZ_TRACE_LOG>")) || bytes.Contains(chunk, []byte("<DISABLE_TRZSZ_TRACE_LOG>")) {
		return true
	}
	return false
}

func vfC05Run(cs vfC05Case, res *vfC05Stats) string {
	defer vfStubClipboard()()
	base, err := os.MkdirTemp("", "vfc05")
	if err != nil {
		return "mkdtemp: " + err.Error()
	}
	defer os.RemoveAll(base)
	src := filepath.Join(base, "src")
	os.MkdirAll(src, 0755)
	vfWriteFile(filepath.Join(src, "small.bin"), vfKindNoise, 5, 3000)
	vfWriteFile(filepath.Join(src, "big.bin"), vfKindNoise, 6, 6<<20)
	vfCurCase("TestVF_C05", cs)
	sess := vfNewSession(cs.Sess)
	defer sess.close()
	var wantTerm, wantShell []byte
	termBase, shellBase := 0, 0
	check := func(step int, what string) string {
		vfWaitLen(sess.termOut, termBase+len(wantTerm), 3*time.Second)
		vfWaitLen(sess.shellIn, shellBase+len(wantShell), 3*time.Second)
		gotT := sess.termOut.bytes()[termBase:]
		gotS := sess.shellIn.bytes()[shellBase:]
		if !bytes.Equal(gotT, wantTerm) {
			i := vfLCP(gotT, wantTerm)
			return fmt.Sprintf("step %d (%s): terminal output differs from server output at byte %d: got %s want %s (got %d bytes, want %d)", step, what, i,
				vfShort(gotT[minInt(int(i), len(gotT)):], 60), vfShort(wantTerm[minInt(int(i), len(wantTerm)):], 60), len(gotT), len(wantTerm))
		}
		if !bytes.Equal(gotS, wantShell) {
			i := vfLCP(gotS, wantShell)
			return fmt.Sprintf("step %d (%s): input reaching the server differs from what was typed at byte %d: got %s want %s (got %d bytes, want %d)", step, what, i,
				vfShort(gotS[minInt(int(i), len(gotS)):], 60), vfShort(wantShell[minInt(int(i), len(wantShell)):], 60), len(gotS), len(wantShell))
		}
		return ""
	}
	for i, a := range cs.Acts {
		switch a.Kind {
		case "out":
			for _, ch := range a.Chunks {
				if vfC05Excluded(ch) {
					res.excluded++
					continue
				}
				sess.shellOutput(ch)
				wantTerm = append(wantTerm, ch...)
				res.chunks++
			}
		case "in":
			for _, ch := range a.Chunks {
				sess.typeInput(ch)
				wantShell = append(wantShell, ch...)
				res.chunks++
			}
		case "dragback":
			// a drag that is taken back: a chunk that consists of existing paths only is, by design, kept from the server for
			// 300 ms (it would start an upload); an ordinary key inside that time cancels it. The key goes through, the path text
			// does not (by design), no upload command is typed - and everything afterwards passes like before.
			if m := check(i, "before the drag"); m != "" {
				return m
			}
			before := sess.shellIn.len()
			sess.typeInput(a.Chunks[0])
			time.Sleep(20 * time.Millisecond)
			sess.typeInput(a.Chunks[1])
			res.chunks++
			time.Sleep(600 * time.Millisecond) // past the point at which the upload would have been started
			// only what arrived since this step counts (an earlier step may have typed the very same bytes), and the key is waited for
			keyBy := time.Now().Add(5 * time.Second)
			for !bytes.HasSuffix(sess.shellIn.bytes()[before:], a.Chunks[1]) && time.Now().Before(keyBy) {
				time.Sleep(2 * time.Millisecond)
			}
			// a reader that got round to it late saw both chunks as one read, which is no drag at all: then everything goes through
			if both := append(append([]byte(nil), a.Chunks[0]...), a.Chunks[1]...); bytes.Equal(sess.shellIn.bytes()[before:], both) {
				wantShell = append(wantShell, both...)
			} else {
				wantShell = append(wantShell, a.Chunks[1]...)
			}
			probe := []byte(fmt.Sprintf("<<after-taken-back-drag-%d>>\r\n", i))
			sess.shellOutput(probe)
			wantTerm = append(wantTerm, probe...)
		case "transfer":
			if m := check(i, "before transfer"); m != "" {
				return m
			}
			if m := vfC05Transfer(sess, a, src, base); m != "" {
				return fmt.Sprintf("step %d: %s", i, m)
			}
			res.transfers++
			// new baseline: whatever the transfer itself displayed is not part of the pass-through claim. A marker sent
			// through the same path after both sides have ended flushes everything the server printed before it.
			marker := []byte(fmt.Sprintf("<<VERIF-SYNC-%d>>", i))
			sess.shellOutput(marker)
			deadline := time.Now().Add(5 * time.Second)
			pos := -1
			for time.Now().Before(deadline) {
				if pos = bytes.LastIndex(sess.termOut.bytes(), marker); pos >= 0 {
					break
				}
				time.Sleep(time.Millisecond)
			}
			if pos < 0 {
				return fmt.Sprintf("step %d: after the transfer (%s) ended on both sides, server output no longer reaches the terminal", i, a.Outcome)
			}
			// and what the user types goes to the server again
			inMarker := []byte(fmt.Sprintf("<<VERIF-TYPED-%d>>", i))
			sess.typeInput(inMarker)
			deadline = time.Now().Add(4 * time.Second)
			for !bytes.Contains(sess.shellIn.bytes(), inMarker) {
				if time.Now().After(deadline) {
					return fmt.Sprintf("step %d: after the transfer (%s) ended on both sides, typed input no longer reaches the server", i, a.Outcome)
				}
				time.Sleep(time.Millisecond)
			}
			termBase, shellBase = pos+len(marker), sess.shellIn.len()
			wantTerm, wantShell = nil, nil
			continue
		}
		if m := check(i, a.Kind); m != "" {
			return m
		}
	}
	return ""
}

type vfC05Stats struct {
	chunks    int
	transfers int
	excluded  int
}

func vfC05Transfer(sess *vfSession, a vfC05Act, src, base string) string {
	dest := filepath.Join(base, fmt.Sprintf("dest%d", time.Now().UnixNano()))
	os.MkdirAll(dest, 0755)
	cfg := vfPairCfg{Upload: a.Upload, Timeout: 2, Overwrite: true}
	paths := []string{filepath.Join(src, "small.bin")}
	if a.Outcome == "forked" {
		if !sess.opts.Tunnel {
			a.Outcome = "succeeded"
		} else {
			cfg.Fork = true
		}
	}
	switch a.Outcome {
	case "refused":
		if a.Upload {
			// the destination directory of trz does not exist: the server refuses before printing a trigger
			if err := sess.startServer("trz", []string{"-q", filepath.Join(base, "missing-dir")}, base); err != nil {
				return "cannot start: " + err.Error()
			}
			if !sess.waitServer(10 * time.Second) {
				return "refusing server did not exit"
			}
			return ""
		}
		dest = filepath.Join(base, "missing-download-dir")
	case "failed", "stopped", "stopped_ui", "sigint":
		paths = []string{filepath.Join(src, "big.bin")}
		cfg.Bufsize = 1024
	}
	if a.Outcome == "succeeded" || a.Outcome == "forked" {
		cfg.Timeout = 10 // nothing here depends on a timeout expiring: on a heavily loaded machine 2 s can expire by itself
	}
	var fired atomic.Bool
	var chatter *vfChatter
	if a.Outcome == "refused" && !a.Upload && sess.opts.Relays == 0 {
		// the wrapper refuses this download itself (the save directory does not exist): no transfer ever becomes active, so what the
		// remote side prints and what the user types while the refusal is on its way must pass like at any other time (not through
		// a relay: a relay that saw the trigger reads its client's answer junk-tolerantly and discards what is typed in front of it)
		chatter = vfStartChatter(sess)
	}
	early := a.Early && (a.Outcome == "stopped" || a.Outcome == "sigint" || a.Outcome == "stopped_ui")
	if early {
		// the transfer ends between the action and the configuration: the server is held (SIGSTOP) just before the action reaches
		// it, the end happens (the client is stopped, or the server is interrupted), and only then the server runs again. A slow
		// server or a slow line gives the same order of events by itself; whoever sits in between is in the middle of the handshake.
		tap := sess.c2s
		if sess.opts.Tunnel {
			tap = sess.tunC2S
		}
		var once sync.Once
		stopClient := a.Outcome == "stopped"
		stopUI := a.Outcome == "stopped_ui"
		tap.onMsg = func(m vfMsg, before bool) {
			if !before { // the first protocol line of this transfer towards the server is the action
				return
			}
			once.Do(func() {
				fired.Store(true)
				sess.signalServer(syscall.SIGSTOP)
				go func() {
					time.Sleep(40 * time.Millisecond)
					if stopUI {
						// the user's way: Ctrl-C, the stop question, Ctrl-C again for a plain stop
						from := sess.termOut.len()
						sess.typeInput([]byte{0x03})
						if !vfAnswerPrompt(sess, from, "\x03") {
							sess.filter.StopTransferringFiles(false)
						}
					} else if stopClient {
						sess.filter.StopTransferringFiles(false)
					} else {
						sess.signalServer(syscall.SIGINT)
					}
					time.Sleep(900 * time.Millisecond) // a stopped client first waits for its input to fall silent (at least 500 ms)
					sess.signalServer(syscall.SIGCONT)
				}()
			})
		}
		defer func() { tap.onMsg = nil }()
	}
	run, err := vfStartTransfer(sess, cfg, paths, dest)
	if err != nil {
		return "cannot start: " + err.Error()
	}
	if early {
		a.Outcome = "early"
	}
	if chatter != nil {
		if m := chatter.finish(); m != "" {
			return m
		}
	}
	switch a.Outcome {
	case "failed":
		// the server dies in the middle of the transfer
		deadline := time.Now().Add(5 * time.Second)
		for !sess.filter.IsTransferringFiles() && time.Now().Before(deadline) {
			time.Sleep(time.Millisecond)
		}
		time.Sleep(30 * time.Millisecond)
		sess.signalServer(syscall.SIGKILL)
	case "stopped":
		deadline := time.Now().Add(5 * time.Second)
		for !sess.filter.IsTransferringFiles() && time.Now().Before(deadline) {
			time.Sleep(time.Millisecond)
		}
		time.Sleep(30 * time.Millisecond)
		sess.filter.StopTransferringFiles(false)
	case "sigint":
		// the failure is on the server side and the server says so itself (a fail line in its own spelling)
		deadline := time.Now().Add(5 * time.Second)
		for !sess.filter.IsTransferringFiles() && time.Now().Before(deadline) {
			time.Sleep(time.Millisecond)
		}
		time.Sleep(60 * time.Millisecond)
		sess.signalServer(syscall.SIGINT)
	case "stopped_ui":
		// the user's way: Ctrl-C, the stop question (shown in quiet mode too), Ctrl-C again for a plain stop
		deadline := time.Now().Add(5 * time.Second)
		for !sess.filter.IsTransferringFiles() && time.Now().Before(deadline) {
			time.Sleep(time.Millisecond)
		}
		time.Sleep(30 * time.Millisecond)
		from := sess.termOut.len()
		sess.typeInput([]byte{0x03})
		if !vfAnswerPrompt(sess, from, "\x03") {
			sess.filter.StopTransferringFiles(false) // no question came up (the transfer was over already, or an old protocol)
		}
	}
	run.finish(40 * time.Second)
	if early && os.Getenv("VERIF_DEBUG") != "" {
		return fmt.Sprintf("DEBUG fired=%v c2s=%q s2c=%q %s", fired.Load(), sess.c2s.transcript(), sess.s2c.transcript(), run.describe())
	}
	if !run.serverEnded {
		return "server did not exit after outcome " + a.Outcome + ": " + run.describe()
	}
	if !run.clientIdle {
		return "the filter never left transfer mode after outcome " + a.Outcome + ": " + run.describe()
	}
	if (a.Outcome == "succeeded" || a.Outcome == "forked") && (!run.serverSuccess() || !run.clientSuccess()) {
		return "fault-free transfer failed: " + run.describe()
	}
	return ""
}

// ---------------------------------------------------------------------------------
// generators

func vfGenNearMissTrigger(rt *rapid.T) []byte {
	g := vfTrig{Mode: rapid.SampledFrom([]string{"S", "R", "D"}).Draw(rt, "nm_mode"), Version: "1.1.8", ID: "1234567890100", Port: "45678"}
	txt := g.text()
	switch rapid.IntRange(0, 5).Draw(rt, "nm_kind") {
	case 0:
		txt = txt[:rapid.IntRange(1, 23).Draw(rt, "nm_cut")]
	case 1:
		txt = "::TRZSZ:TRANSFER:" + rapid.SampledFrom([]string{"X", "s", "T"}).Draw(rt, "nm_letter") + ":1.1.8:1234567890100:1"
	case 2:
		txt = "::TRZSZ:TRANSFER:S:1.8:1234567890100"
	case 3:
		txt = "::TRZSZGO:TRANSFER:S:1.1.8:1234567890100:45678"
	case 4:
		txt = "::TRZSZ:TRANSFER :S:1.1.8"
	default:
		txt = ":TRZSZ:TRANSFER:S:1.1.8:1"
	}
	return []byte("\x1b7\x07" + txt + "\r\n")
}

func vfGenOutChunk(rt *rapid.T) []byte {
	switch rapid.IntRange(0, 9).Draw(rt, "outkind") {
	case 0, 1:
		return rapid.SliceOfN(rapid.Byte(), 1, 200).Draw(rt, "bin")
	case 2:
		return []byte(rapid.SampledFrom([]string{"\x1b[0m", "\x1b[1;32mok\x1b[0m\r\n", "\x1b]0;title\x07", "\x1b[?25l", "\x1b[2J\x1b[H", "user@host:~$ ", "\r\n", "\x1b[200~"}).Draw(rt, "esc"))
	case 3, 4:
		return vfGenNearMissTrigger(rt)
	case 5: // zmodem-like fragments that must not start a session
		return []byte(rapid.SampledFrom([]string{"**\x18B0", "**\x18B00000000000", "rz waiting to receive.**\x18B0100000023be5", "**\x18B0100000023BE50\r", "**\x18B2100000023be50",
			"**\x18B0100000023be50\r\x8a\x11\x18\x18\x18\x18\x18\x18\x18\x18\x18\x18", "sz: cannot open x: No such file\r\n**\x18B00000000000000\r", "\x18\x18\x18\x18\x18\x08\x08\x08\x08\x08", "**\x18B08"}).Draw(rt, "zm"))
	case 6: // OSC 52 fragments
		return []byte(rapid.SampledFrom([]string{"\x1b]52;c;aGVsbG8=\x07", "\x1b]52;", "\x1b]52;c", "\x1b]52;p", "\x1b]52;c;aGVs", "bG8=", "\x07", "\x1b\\", "\x1b]52;p;", "\x1b]52;x;YQ==\x07", "\x1b]52;c;!!!\x07"}).Draw(rt, "osc"))
	case 7: // trace-log marker near-misses
		return []byte(rapid.SampledFrom([]string{"<ENABLE_TRZSZ_TRACE_LOG", "ENABLE_TRZSZ_TRACE_LOG>", "<enable_trzsz_trace_log>", "<DISABLE_TRZSZ_TRACE_LOG", "<ENABLE_TRZSZ_TRACE_LOG >"}).Draw(rt, "tl"))
	case 8:
		return []byte(rapid.SampledFrom([]string{"Saved 1 file\r\n", "#CFG:abc\n", "#SUCC:1\n", "#EXIT:x\n", "#fail:x\n", "#DATA:5\nabcde", "::", "TRZSZ"}).Draw(rt, "proto"))
	default:
		n := rapid.IntRange(1000, 70000).Draw(rt, "biglen")
		return vfContent(vfKindNoise, uint64(n), int64(n))
	}
}

func vfGenInChunk(rt *rapid.T, drag bool) []byte {
	var b []byte
	switch rapid.IntRange(0, 5).Draw(rt, "inkind") {
	case 0, 1:
		b = rapid.SliceOfN(rapid.Byte(), 1, 60).Draw(rt, "inbin")
	case 2:
		b = []byte(rapid.SampledFrom([]string{"ls -l\r", "\x03", "\x1b[A", "\x1b[200~pasted text\x1b[201~", "\x1b[200~", "\x1b[201~", "q", "\t", "\x04", "send -t %1 0x3\r"}).Draw(rt, "keys"))
	case 3: // path-like text naming files that do not exist
		b = []byte(rapid.SampledFrom([]string{"/no-such-dir-vf/a.txt ", "'/no-such-dir-vf/a b.txt' ", "/no-such-dir-vf/a /no-such-dir-vf/b ", "/no-such-dir-vf/x", "'/no-such-dir-vf/unterminated ",
			// lists that are only partly existing paths are not a drag: they pass through like any other input
			"/tmp /no-such-dir-vf/a ", "/no-such-dir-vf/a /tmp ", "'/tmp' '/no-such-dir-vf/a b' ", "/ /etc /no-such-dir-vf/z ", "/etc/hostname /no-such-dir-vf/z /tmp ",
			"C:\\no\\such\\file.txt", "\"C:\\no such\\f.txt\"", "/c/no-such/file "}).Draw(rt, "paths"))
	case 4:
		b = []byte(rapid.SampledFrom([]string{"trz\r", "tsz file\r", "exit\r", "::TRZSZ:TRANSFER:S:1.1.8\r"}).Draw(rt, "cmd"))
	default:
		b = vfContent(vfKindText, 3, int64(rapid.IntRange(100, 40000).Draw(rt, "inbig")))
	}
	if drag && len(b) >= 3 && (b[0] == '/' || (b[0] == '\'' && b[1] == '/')) && b[len(b)-1] == ' ' && !bytes.Contains(b, []byte("no-such")) {
		b[len(b)-1] = '.' // a chunk of existing paths ending in a space is, by design, taken as a drag
	}
	return b
}

func vfGenC05(rt *rapid.T) vfC05Case {
	var cs vfC05Case
	cs.Sess.Drag = rapid.Bool().Draw(rt, "drag")
	cs.Sess.Zmodem = rapid.Bool().Draw(rt, "zmodem")
	cs.Sess.OSC52 = rapid.Bool().Draw(rt, "osc52")
	cs.Sess.TraceLog = rapid.Bool().Draw(rt, "tracelog")
	cs.Sess.Tunnel = rapid.IntRange(0, 3).Draw(rt, "tunnel") == 0
	withTransfers := rapid.IntRange(0, 19).Draw(rt, "withtransfers") == 0
	n := rapid.IntRange(1, 12).Draw(rt, "nacts")
	for i := 0; i < n; i++ {
		var a vfC05Act
		k := rapid.IntRange(0, 9).Draw(rt, "actkind")
		switch {
		case withTransfers && k == 0:
			a.Kind = "transfer"
			a.Outcome = rapid.SampledFrom([]string{"succeeded", "refused", "failed", "stopped", "stopped_ui", "sigint", "forked"}).Draw(rt, "outcome")
			a.Upload = rapid.Bool().Draw(rt, "upload")
			a.Early = (a.Outcome == "stopped" || a.Outcome == "sigint" || a.Outcome == "stopped_ui") && rapid.IntRange(0, 2).Draw(rt, "early") == 0
		case cs.Sess.Drag && k == 1 && rapid.IntRange(0, 2).Draw(rt, "dragback") == 0:
			a.Kind = "dragback"
			a.Chunks = [][]byte{
				[]byte(rapid.SampledFrom([]string{"/etc/hostname ", "/tmp ", "/etc/hostname /etc/passwd ", "'/etc/hostname' ", "/etc /tmp "}).Draw(rt, "dragpaths")),
				[]byte(rapid.SampledFrom([]string{"q", "\x7f", "ls\r", "x", "\x1b[A"}).Draw(rt, "dragkey")),
			}
		case k <= 5:
			a.Kind = "out"
			m := rapid.IntRange(1, 4).Draw(rt, "nchunks")
			for j := 0; j < m; j++ {
				a.Chunks = append(a.Chunks, vfGenOutChunk(rt))
			}
		default:
			a.Kind = "in"
			m := rapid.IntRange(1, 3).Draw(rt, "nchunks")
			for j := 0; j < m; j++ {
				a.Chunks = append(a.Chunks, vfGenInChunk(rt, cs.Sess.Drag))
			}
		}
		cs.Acts = append(cs.Acts, a)
	}
	if withTransfers {
		has := false
		for _, a := range cs.Acts {
			if a.Kind == "transfer" {
				has = true
			}
		}
		if !has {
			cs.Acts = append([]vfC05Act{{Kind: "transfer", Outcome: rapid.SampledFrom([]string{"succeeded", "refused", "failed", "stopped", "stopped_ui", "sigint", "forked"}).Draw(rt, "outcome2"),
				Upload: rapid.Bool().Draw(rt, "upload2")}}, cs.Acts...)
		}
	}
	return cs
}

func TestVF_C05(t *testing.T) {
	c := vfNewCollector("C05", "TestVF_C05")
	vfCheck(t, c, vfGenC05, func(cs vfC05Case) string {
		var st vfC05Stats
		msg := vfC05Run(cs, &st)
		labels := []string{fmt.Sprintf("opts_drag%v_zmodem%v_osc%v_trace%v", cs.Sess.Drag, cs.Sess.Zmodem, cs.Sess.OSC52, cs.Sess.TraceLog)}
		for _, a := range cs.Acts {
			if a.Kind == "transfer" {
				labels = append(labels, "after_transfer_"+a.Outcome)
			}
			if a.Kind == "dragback" {
				labels = append(labels, "drag_taken_back")
			}
		}
		if st.excluded > 0 {
			c.exclude(int64(st.excluded))
		}
		c.eval(cs, st.chunks >= 2, labels...)
		return msg
	})
}

// TestVF_C05Exit (E5): the real trzsz binary in front of a pty. The wrapped command's exit status is passed on and its
// output reaches stdout unmodified (the slave side is put into raw mode first, so the tty layer does not translate).
func TestVF_C05Exit(t *testing.T) {
	c := vfNewCollector("C05", "TestVF_C05Exit")
	defer vfFlushAll()
	if vfReplayOnly() {
		return
	}
	shard, shards := vfShard()
	base, err := os.MkdirTemp("", "vfc05e")
	if err != nil {
		t.Fatal(err)
	}
	defer os.RemoveAll(base)
	payload := vfContent(vfKindNoise, 42, 5000)
	// keep clear of bytes a cooked-mode tty would act on before `stty raw` takes effect
	file := filepath.Join(base, "payload.bin")
	os.WriteFile(file, payload, 0644)
	job := 0
	for _, code := range []int{0, 1, 7, 255} {
		for _, opts := range [][]string{nil, {"-d"}, {"-z", "-o"}, {"-t", "-d", "-z", "-o"}} {
			job++
			if job%shards != shard {
				continue
			}
			cs := map[string]any{"exit": code, "options": opts}
			args := append(append([]string{}, opts...), "sh", "-c", fmt.Sprintf("stty raw -echo; cat %s; exit %d", file, code))
			cmd := exec.Command(vfBinPath("trzsz"), args...)
			stdin, _ := cmd.StdinPipe() // stays open: EOF on stdin would end the pty
			var out bytes.Buffer
			cmd.Stdout = &out
			cmd.Env = append(os.Environ(), "HOME="+base)
			err := cmd.Start()
			if err != nil {
				t.Fatalf("cannot start trzsz: %v", err)
			}
			done := make(chan error, 1)
			go func() { done <- cmd.Wait() }()
			var werr error
			select {
			case werr = <-done:
			case <-time.After(20 * time.Second):
				cmd.Process.Kill()
				werr = <-done
			}
			stdin.Close()
			got := 0
			if ee, ok := werr.(*exec.ExitError); ok {
				got = ee.ExitCode()
			} else if werr != nil {
				got = -1
			}
			c.eval(cs, true, "trzsz_binary_exit_status")
			if got != code {
				msg := fmt.Sprintf("trzsz %v: the wrapped command exited with %d, trzsz with %d", opts, code, got)
				c.violation("exit_status", cs, msg)
				t.Errorf("%s", msg)
			}
			if !bytes.Contains(out.Bytes(), payload) {
				msg := fmt.Sprintf("trzsz %v: the wrapped command's output (%d bytes) did not reach stdout unmodified (%d bytes arrived, common prefix %d)", opts, len(payload), out.Len(), vfLCP(out.Bytes(), payload))
				if vfKnown("F15") && (out.Len() == 0 || bytes.HasPrefix(payload, out.Bytes())) {
					// recorded finding: trzsz exits as soon as the wrapped command has exited, without draining the pty; only a lost tail matches
					c.known("F15", cs, msg)
				} else {
					c.violation("exit_output", cs, msg)
					t.Errorf("%s", msg)
				}
			}
		}
	}
}

// vfChatter prints numbered lines as the remote side and types numbered tokens as the user, from the moment a trigger has passed
// the wire for 400 ms, and afterwards says which of them did not get through.
type vfChatter struct {
	sess  *vfSession
	done  chan struct{}
	lines [][]byte
	toks  [][]byte
	late  bool
}

func vfStartChatter(sess *vfSession) *vfChatter {
	ch := &vfChatter{sess: sess, done: make(chan struct{})}
	base := len(sess.s2c.transcript())
	go func() {
		defer close(ch.done)
		deadline := time.Now().Add(5 * time.Second)
		for !bytes.Contains(sess.s2c.transcript()[base:], []byte("::TRZSZ:TRANSFER:")) {
			if time.Now().After(deadline) {
				ch.late = true
				return
			}
			time.Sleep(200 * time.Microsecond)
		}
		stop := time.Now().Add(400 * time.Millisecond)
		for i := 0; time.Now().Before(stop); i++ {
			line := []byte(fmt.Sprintf("<<remote-line-%04d>>\r\n", i))
			tok := []byte(fmt.Sprintf("<<typed-%04d>>", i))
			ch.lines = append(ch.lines, line)
			ch.toks = append(ch.toks, tok)
			sess.shellOutput(line)
			sess.typeInput(tok)
			time.Sleep(4 * time.Millisecond)
		}
	}()
	return ch
}

func (ch *vfChatter) finish() string {
	<-ch.done
	if ch.late || len(ch.lines) == 0 {
		return ""
	}
	// everything has been handed over; give the pumps a moment
	last := ch.lines[len(ch.lines)-1]
	deadline := time.Now().Add(3 * time.Second)
	for time.Now().Before(deadline) && !bytes.Contains(ch.sess.termOut.bytes(), last) {
		time.Sleep(2 * time.Millisecond)
	}
	out := ch.sess.termOut.bytes()
	missing := 0
	first := ""
	for _, l := range ch.lines {
		if !bytes.Contains(out, bytes.TrimRight(l, "\r\n")) {
			missing++
			if first == "" {
				first = string(bytes.TrimRight(l, "\r\n"))
			}
		}
	}
	if missing > 0 {
		return fmt.Sprintf("while the wrapper refused a download by itself (no transfer was ever active) %d of %d lines printed by the remote side did not reach the terminal (first: %s)", missing, len(ch.lines), first)
	}
	lastTok := ch.toks[len(ch.toks)-1]
	deadline = time.Now().Add(3 * time.Second)
	for time.Now().Before(deadline) && !bytes.Contains(ch.sess.c2s.transcript(), lastTok) {
		time.Sleep(2 * time.Millisecond)
	}
	in := ch.sess.c2s.transcript()
	missing = 0
	for _, tk := range ch.toks {
		if !bytes.Contains(in, tk) {
			missing++
			if first == "" {
				first = string(tk)
			}
		}
	}
	if missing > 0 {
		return fmt.Sprintf("while the wrapper refused a download by itself (no transfer was ever active) %d of %d typed tokens did not reach the remote side (first: %s)", missing, len(ch.toks), first)
	}
	return ""
}
