//go:build verif

// C06 (detector level) — a trigger starts exactly one transfer; look-alikes and replays start none.
// The reference grammar is a hand-written scanner, not the code's regular expressions.

package trzsz

import (
	"bytes"
	"fmt"
	"regexp"
	"strconv"
	"strings"
	"testing"
	"time"

	"pgregory.net/rapid"
)

const vfMarker = "::TRZSZ:TRANSFER:"

type vfTrig struct {
	Mode    string `json:"mode"`
	Version string `json:"version"`
	ID      string `json:"id"`   // "" = absent
	Port    string `json:"port"` // "" = absent (only with an id)
}

func (g vfTrig) text() string {
	s := vfMarker + g.Mode + ":" + g.Version
	if g.ID != "" {
		s += ":" + g.ID
		if g.Port != "" {
			s += ":" + g.Port
		}
	}
	return s
}

type vfRefTrigger struct {
	mode    byte
	version [3]uint32
	id      string
	port    int
	win     bool
	end     int // offset just after the trigger text, relative to the chunk
	idx     int // offset of the marker
}

func vfDigits(b []byte, i int) int {
	j := i
	for j < len(b) && b[j] >= '0' && b[j] <= '9' {
		j++
	}
	return j
}

// vfRefParse: the last occurrence of the marker, then the grammar trz/tsz print. nil = not a complete trigger.
func vfRefParse(chunk []byte) *vfRefTrigger {
	idx := bytes.LastIndex(chunk, []byte(vfMarker))
	if idx < 0 {
		return nil
	}
	p := idx + len(vfMarker)
	if p >= len(chunk) || (chunk[p] != 'S' && chunk[p] != 'R' && chunk[p] != 'D') {
		return nil
	}
	r := &vfRefTrigger{mode: chunk[p], idx: idx}
	p++
	if p >= len(chunk) || chunk[p] != ':' {
		return nil
	}
	p++
	// a.b.c, greedy digits; the third part is followed by anything
	for k := 0; k < 3; k++ {
		e := vfDigits(chunk, p)
		if e == p {
			return nil
		}
		v, err := strconv.ParseUint(string(chunk[p:e]), 10, 32)
		if err != nil {
			return nil // a version part that does not fit 32 bits is not a version the servers print
		}
		r.version[k] = uint32(v)
		p = e
		if k < 2 {
			if p >= len(chunk) || chunk[p] != '.' {
				return nil
			}
			p++
		}
	}
	// optional :id
	if p < len(chunk) && chunk[p] == ':' {
		if e := vfDigits(chunk, p+1); e > p+1 {
			r.id = string(chunk[p+1 : e])
			p = e
			// optional :port
			if p < len(chunk) && chunk[p] == ':' {
				if e := vfDigits(chunk, p+1); e > p+1 {
					if v, err := strconv.Atoi(string(chunk[p+1 : e])); err == nil {
						r.port = v
					}
					p = e
				}
			}
		}
	}
	r.end = p
	r.win = r.id == "1" || (len(r.id) == 13 && strings.HasSuffix(r.id, "10"))
	return r
}

var vfFinishedWords = []string{"#CFG:", "Saved", "Cancelled", "Stopped", "Interrupted"}

type vfC06Step struct {
	Chunk  []byte `json:"chunk"`
	Tunnel bool   `json:"tunnel"`
	Class  string `json:"class"` // generator's intent: trigger | nontrigger | scrollback | control
}

type vfC06Case struct {
	Relay   bool        `json:"relay"`
	Windows bool        `json:"windows"` // the "affected by Windows" flag of the detecting side
	Steps   []vfC06Step `json:"steps"`
}

// remembered-id model: ids in order of first insertion (most recent last).
type vfIDModel struct {
	order []string
}

func (m *vfIDModel) remembered(id string, windows bool) bool {
	return len(id) > 6 && (windows || !(len(id) == 13 && strings.HasSuffix(id, "00")))
}

// expectation for a repeat: +1 must fire, -1 must be suppressed, 0 unspecified
func (m *vfIDModel) expect(id string, windows bool) int {
	if !m.remembered(id, windows) {
		return +1
	}
	for i := len(m.order) - 1; i >= 0; i-- {
		if m.order[i] == id {
			if len(m.order)-1-i < 50 {
				return -1
			}
			return 0
		}
	}
	return +1
}

func (m *vfIDModel) add(id string, windows bool, fired bool) {
	if !m.remembered(id, windows) {
		return
	}
	if !fired {
		return
	}
	// the detector let it through, so it did not remember it (any more) and has just inserted it: most recent now
	for i, o := range m.order {
		if o == id {
			m.order = append(m.order[:i], m.order[i+1:]...)
			break
		}
	}
	m.order = append(m.order, id)
}

func vfRetag(id string) string {
	if len(id) >= 13 && strings.HasSuffix(id, "00") {
		return id[:len(id)-2] + "20"
	}
	return id
}

var vfGoRe = regexp.MustCompile(`TRZSZ(GO)+`)

// vfNormGO removes the marker decoration, however often it was applied (a chunk may already carry TRZSZGO text).
func vfNormGO(b []byte) []byte {
	return vfGoRe.ReplaceAll(b, []byte("TRZSZ"))
}

func vfC06Run(cs vfC06Case) (msg string, fired int, suppressed int) {
	old := windowsEnvironment
	defer func() { windowsEnvironment = old }()
	windowsEnvironment = cs.Windows
	det := newTrzszDetector(cs.Relay, cs.Relay)
	model := &vfIDModel{}
	for i, st := range cs.Steps {
		in := append([]byte(nil), st.Chunk...)
		out, trig := det.detectTrzsz(in, st.Tunnel)
		ref := vfRefParse(st.Chunk)
		// reference verdict
		expectTrigger := ref != nil
		controlPrefix := ""
		if ref != nil {
			// tmux control-mode framing: honoured only with a tunnel and a port
			if j := vfControlHeader(st.Chunk[:ref.idx]); j != "" {
				if !st.Tunnel || ref.port == 0 && !vfHasPortField(st.Chunk, ref) {
					expectTrigger = false
				}
				controlPrefix = j
			}
			tail := st.Chunk[ref.idx:]
			if len(tail) > 40 {
				for _, w := range vfFinishedWords {
					if bytes.Contains(tail[40:], []byte(w)) {
						expectTrigger = false
					}
				}
			}
		}
		idExpect := +1
		effID := ""
		if expectTrigger {
			effID = ref.id
			if cs.Relay {
				effID = vfRetag(ref.id)
			}
			idExpect = model.expect(effID, cs.Windows)
		}
		if !expectTrigger || idExpect == -1 {
			if trig != nil {
				return fmt.Sprintf("step %d (%s): a transfer was started by %s (reference: no trigger / repeated id)", i, st.Class, vfShort(st.Chunk, 120)), fired, suppressed
			}
			want := st.Chunk
			if cs.Relay && expectTrigger {
				want = bytes.ReplaceAll(st.Chunk, []byte(ref.id), []byte(effID)) // the relay re-tags ids even on a suppressed redraw
			}
			if !bytes.Equal(out, want) && !(cs.Relay && ref != nil && bytes.Equal(out, bytes.ReplaceAll(st.Chunk, []byte(ref.id), []byte(vfRetag(ref.id))))) {
				return fmt.Sprintf("step %d (%s): output changed although no transfer was started: %s -> %s", i, st.Class, vfShort(st.Chunk, 100), vfShort(out, 100)), fired, suppressed
			}
			if expectTrigger {
				suppressed++
			}
			continue
		}
		if idExpect == 0 {
			if trig != nil {
				model.add(effID, cs.Windows, true)
			}
			continue // outside the guaranteed window: nothing asserted
		}
		if trig == nil {
			return fmt.Sprintf("step %d (%s): genuine trigger not recognised: %s", i, st.Class, vfShort(st.Chunk, 160)), fired, suppressed
		}
		fired++
		model.add(effID, cs.Windows, true)
		if trig.mode != ref.mode || *trig.version != trzszVersion(ref.version) || trig.uniqueID != effID || trig.tunnelPort != ref.port || trig.winServer != (effID == "1" || (len(effID) == 13 && strings.HasSuffix(effID, "10"))) {
			return fmt.Sprintf("step %d: fields differ: got mode=%c version=%v id=%q port=%d win=%v, trigger text %q", i, trig.mode, *trig.version, trig.uniqueID,
				trig.tunnelPort, trig.winServer, st.Chunk[ref.idx:ref.end]), fired, suppressed
		}
		if trig.tmuxPrefix != controlPrefix {
			return fmt.Sprintf("step %d: tmux control-mode prefix %q, expected %q", i, trig.tmuxPrefix, controlPrefix), fired, suppressed
		}
		if !cs.Relay {
			// shown locally in a form a second wrapper does not react to, nothing else changed
			if _, t2 := newTrzszDetector(false, false).detectTrzsz(append([]byte(nil), out...), st.Tunnel); t2 != nil {
				return fmt.Sprintf("step %d: a second client-mode detector still reacts to the rewritten output %s", i, vfShort(out, 160)), fired, suppressed
			}
			if !bytes.Equal(vfNormGO(out), vfNormGO(st.Chunk)) {
				return fmt.Sprintf("step %d: client rewrite changed more than the marker: %s -> %s", i, vfShort(st.Chunk, 100), vfShort(out, 100)), fired, suppressed
			}
		} else {
			// forwarded in a form the real client still recognises, marked as relayed
			tt := append([]byte(nil), st.Chunk[ref.idx:ref.end]...)
			if ref.id != "" {
				tt = bytes.ReplaceAll(tt, []byte(ref.id), []byte(effID))
			}
			markAt := bytes.LastIndex(out, append(append([]byte(nil), tt...), '#', 'R'))
			if markAt < 0 {
				return fmt.Sprintf("step %d: relayed trigger is not marked with #R directly after the trigger: %s", i, vfShort(out, 160)), fired, suppressed
			}
			markAt += len(tt)
			old2 := windowsEnvironment
			windowsEnvironment = false
			_, t2 := newTrzszDetector(false, false).detectTrzsz(append([]byte(nil), out...), st.Tunnel)
			windowsEnvironment = old2
			if t2 == nil {
				return fmt.Sprintf("step %d: the real client does not recognise the relayed trigger %s", i, vfShort(out, 160)), fired, suppressed
			}
			if t2.mode != ref.mode || *t2.version != trzszVersion(ref.version) || t2.tunnelPort != ref.port || t2.uniqueID != effID {
				return fmt.Sprintf("step %d: the client reads the relayed trigger differently: mode=%c version=%v id=%q port=%d (relay saw id %q port %d)", i,
					t2.mode, *t2.version, t2.uniqueID, t2.tunnelPort, effID, ref.port), fired, suppressed
			}
			rest := append(append([]byte(nil), out[:markAt]...), out[markAt+2:]...)
			wantRest := st.Chunk
			if ref.id != "" {
				wantRest = bytes.ReplaceAll(st.Chunk, []byte(ref.id), []byte(effID))
			}
			if !bytes.Equal(rest, wantRest) {
				return fmt.Sprintf("step %d: relay rewrite changed more than the id tag and the #R mark: %s -> %s", i, vfShort(st.Chunk, 100), vfShort(out, 100)), fired, suppressed
			}
		}
	}
	return "", fired, suppressed
}

func vfHasPortField(chunk []byte, ref *vfRefTrigger) bool {
	// a port field is present (even ":0") iff the trigger text has two numeric fields after the version
	t := chunk[ref.idx:ref.end]
	return bytes.Count(t[len(vfMarker):], []byte(":")) >= 3
}

// vfControlHeader: "%output %<n> " or "%extended-output %<n> <m> : " somewhere before the marker on the same chunk
// (the detector matches the header anywhere in front of the marker with '.' not crossing a newline).
func vfControlHeader(prefix []byte) string {
	best := ""
	bestAt := -1
	for _, h := range []string{"%output %", "%extended-output %"} {
		from := 0
		for {
			i := bytes.Index(prefix[from:], []byte(h))
			if i < 0 {
				break
			}
			i += from
			from = i + 1
			p := i + len(h)
			e := vfDigits(prefix, p)
			if e == p || e >= len(prefix) || prefix[e] != ' ' {
				continue
			}
			end := e + 1
			if h == "%extended-output %" {
				e2 := vfDigits(prefix, end)
				if e2 == end || !bytes.HasPrefix(prefix[e2:], []byte(" : ")) {
					continue
				}
				end = e2 + 3
			}
			if bytes.IndexByte(prefix[end:], '\n') >= 0 {
				continue
			}
			if bestAt < 0 || i < bestAt {
				bestAt = i
				best = string(prefix[i:end])
			}
		}
	}
	return best
}

// ---------------------------------------------------------------------------------
// generators

func vfGenVersionPart(rt *rapid.T, l string) string {
	switch rapid.IntRange(0, 5).Draw(rt, l+"k") {
	case 0:
		return strconv.FormatUint(uint64(rapid.Uint32().Draw(rt, l+"big")), 10)
	case 1:
		return rapid.SampledFrom([]string{"0", "4294967295", "00", "007"}).Draw(rt, l+"edge")
	default:
		return strconv.Itoa(rapid.IntRange(0, 30).Draw(rt, l+"small"))
	}
}

func vfGenTrig(rt *rapid.T, freshID func() string) vfTrig {
	var g vfTrig
	g.Mode = rapid.SampledFrom([]string{"S", "R", "D"}).Draw(rt, "mode")
	g.Version = vfGenVersionPart(rt, "va") + "." + vfGenVersionPart(rt, "vb") + "." + vfGenVersionPart(rt, "vc")
	switch rapid.IntRange(0, 5).Draw(rt, "idkind") {
	case 0:
	case 1:
		g.ID = strconv.Itoa(rapid.IntRange(0, 999999).Draw(rt, "shortid"))
	default:
		g.ID = freshID()
	}
	if g.ID != "" && rapid.IntRange(0, 3).Draw(rt, "hasport") != 0 {
		g.Port = strconv.Itoa(rapid.IntRange(0, 65535).Draw(rt, "port"))
	}
	return g
}

func vfGenPrefix(rt *rapid.T) []byte {
	switch rapid.IntRange(0, 5).Draw(rt, "prefixkind") {
	case 0:
		return nil
	case 5:
		// earlier output of the same read, long enough to reach beyond the first 40 bytes, ending in one of the words that end a
		// transfer (a script that printed "Saved ..." and then started tsz; the tail of the previous transfer's message)
		pad := rapid.SampledFrom([]string{"user@host:~$ ./backup.sh && tsz archive.tgz\r\nbackup of /home/user done\r\n", "- /tmp/downloads/a-rather-long-file-name-number-one.bin\r\n- /tmp/downloads/two.bin\r\n",
			strings.Repeat("x", 39), strings.Repeat("y", 40), strings.Repeat("z", 41) + "\r\n"}).Draw(rt, "prefixpad")
		word := rapid.SampledFrom([]string{"Saved 3 files\r\n", "Stopped\r\n", "Cancelled\r\n", "Interrupted\r\n", "#CFG:abc\n", "Saved", "[1]+  Stopped   vim\r\n"}).Draw(rt, "prefixword")
		return []byte(pad + word + rapid.SampledFrom([]string{"", "\x1b7\x07", "user@host:~$ tsz x\r\n\x1b7\x07"}).Draw(rt, "prefixtail"))
	case 1:
		return []byte("\x1b7\x07")
	case 2:
		return []byte(rapid.SampledFrom([]string{"user@host:~$ tsz file\r\n\x1b7\x07", "\n\x1b[1A\x1b[0J\x1b7\x07", "TRZSZ ", "::TRZSZ:TRANSFER", "::TRZSZ:TRANSFER:X:", "Saved 1 file\r\n", "#CFG:abc\n",
			// a redraw can put an earlier complete trigger into the same read: the last occurrence is the one acted on
			"\x1b7\x07::TRZSZ:TRANSFER:S:1.1.8\r\n", "::TRZSZ:TRANSFER:R:1.1.6:7\r\n\x1b[2J", "\x1b7\x07::TRZSZ:TRANSFER:D:1.0.0:123:45\r\n"}).Draw(rt, "prefixtxt"))
	default:
		n := rapid.IntRange(0, 60).Draw(rt, "prefixlen")
		b := make([]byte, n)
		for i := range b {
			b[i] = rapid.Byte().Draw(rt, "pb")
		}
		// never a marker, never a control-mode header in the arbitrary prefix
		b = bytes.ReplaceAll(b, []byte("::"), []byte(":;"))
		b = bytes.ReplaceAll(b, []byte("%"), []byte("&"))
		return b
	}
}

func vfGenSuffix(rt *rapid.T) []byte {
	switch rapid.IntRange(0, 3).Draw(rt, "suffixkind") {
	case 0:
		return []byte("\r\n")
	case 1:
		return nil
	case 2:
		return []byte(rapid.SampledFrom([]string{"\r\n\x1b[?25l", " ", "#R\r\n", "\r\nuser@host:~$ ", "\r\n(1/2) a.txt [███░░░] 50% | 1.00 MB/s"}).Draw(rt, "suffixtxt"))
	default:
		n := rapid.IntRange(1, 80).Draw(rt, "suffixlen")
		b := make([]byte, n)
		for i := range b {
			b[i] = rapid.Byte().Draw(rt, "sb")
		}
		if (b[0] >= '0' && b[0] <= '9') || b[0] == ':' || b[0] == '.' {
			b[0] = ' '
		}
		b = bytes.ReplaceAll(b, []byte("::"), []byte(":;"))
		for _, w := range vfFinishedWords {
			b = bytes.ReplaceAll(b, []byte(w), []byte("xxxxx"))
		}
		return b
	}
}

func vfGenC06(rt *rapid.T) vfC06Case {
	var cs vfC06Case
	cs.Relay = rapid.IntRange(0, 2).Draw(rt, "relay") == 0
	cs.Windows = rapid.IntRange(0, 3).Draw(rt, "windows") == 0
	var ids []string
	counter := rapid.Int64Range(1000000000, 9000000000).Draw(rt, "idbase")
	freshID := func() string {
		counter += int64(rapid.IntRange(1, 3).Draw(rt, "idstep"))
		role := rapid.SampledFrom([]string{"00", "10", "20", "00", "20", "37", "99", "01"}).Draw(rt, "role")
		id := fmt.Sprintf("%011d%s", counter, role)
		if rapid.IntRange(0, 9).Draw(rt, "longid") == 0 {
			id = "9" + id // 14 digits
		}
		ids = append(ids, id)
		return id
	}
	n := rapid.IntRange(1, 6).Draw(rt, "nsteps")
	if rapid.IntRange(0, 9).Draw(rt, "longhistory") == 0 {
		n = rapid.IntRange(60, 150).Draw(rt, "nsteps2")
	}
	stress := rapid.IntRange(0, 11).Draw(rt, "idstress") == 0
	if stress {
		// more distinct remembered ids than the table holds, with redraws of recent ones in between
		n = rapid.IntRange(105, 170).Draw(rt, "nstress")
	}
	for i := 0; i < n; i++ {
		var st vfC06Step
		st.Tunnel = rapid.Bool().Draw(rt, "tunnel")
		kind := rapid.IntRange(0, 9).Draw(rt, "stepkind")
		if stress {
			kind = 0
			if len(ids) > 0 && rapid.IntRange(0, 6).Draw(rt, "redraw") == 0 {
				back := rapid.IntRange(1, minInt(49, len(ids))).Draw(rt, "back")
				g := vfTrig{Mode: "S", Version: "1.1.8", ID: ids[len(ids)-back], Port: "12345"}
				st.Chunk = []byte("\x1b7\x07" + g.text() + "\r\n")
				st.Class = "repeat"
				cs.Steps = append(cs.Steps, st)
				continue
			}
			counter++
			id := fmt.Sprintf("%011d%s", counter, rapid.SampledFrom([]string{"20", "10", "37"}).Draw(rt, "role"))
			ids = append(ids, id)
			g := vfTrig{Mode: "R", Version: "1.1.8", ID: id, Port: "12345"}
			st.Chunk = []byte("\x1b7\x07" + g.text() + "\r\n")
			st.Class = "trigger"
			cs.Steps = append(cs.Steps, st)
			continue
		}
		switch {
		case kind <= 3: // fresh genuine trigger
			g := vfGenTrig(rt, freshID)
			st.Chunk = append(append(vfGenPrefix(rt), g.text()...), vfGenSuffix(rt)...)
			st.Class = "trigger"
		case kind == 4 && len(ids) > 0: // a redraw repeating a seen id
			id := ids[rapid.IntRange(0, len(ids)-1).Draw(rt, "which")]
			g := vfTrig{Mode: rapid.SampledFrom([]string{"S", "R", "D"}).Draw(rt, "mode"), Version: "1.1.8", ID: id, Port: "12345"}
			st.Chunk = append(append(vfGenPrefix(rt), g.text()...), vfGenSuffix(rt)...)
			st.Class = "repeat"
		case kind == 5 && rapid.IntRange(0, 2).Draw(rt, "scrollback_edge") == 0:
			// scroll-back whose transfer-ending word begins right at the edge of the look-behind window: 39, 40, 41 ... bytes after
			// the start of the trigger (a trigger without a port is 38 bytes long: the config line follows directly after CR LF)
			g := vfGenTrig(rt, freshID)
			if len(g.ID) < 13 {
				g.ID = freshID()
			}
			if rapid.Bool().Draw(rt, "edge_noport") {
				g.Port = ""
			}
			trig := g.text()
			at := rapid.SampledFrom([]int{38, 39, 40, 40, 41, 42, 45}).Draw(rt, "edge_at")
			// every server ends its trigger line with CR LF, so the nearest a word can begin is two bytes behind the trigger
			fill := "\r\n"
			if pad := at - len(trig); pad > 2 {
				fill += strings.Repeat(" ", pad-2)
			}
			word := rapid.SampledFrom([]string{"#CFG:eJyrVspJzEtXslJQKqhU0lFQSipNK86sSgUKGBoYGOgoKJVkluSmKlkpGBoZ1wIAKlwNGw==\n", "Saved 1 file\r\n", "Stopped\r\n", "Cancelled\r\n", "Interrupted\r\n"}).Draw(rt, "edge_word")
			st.Chunk = []byte("\x1b7\x07" + trig + fill + word)
			st.Class = "scrollback"
		case kind == 5: // scroll-back of a finished transfer, as the current servers print it
			g := vfGenTrig(rt, freshID)
			if len(g.ID) < 13 {
				g.ID = freshID()
			}
			if g.Port == "" {
				g.Port = "40123"
			}
			fin := rapid.SampledFrom([]string{"Saved 1 file/directory to /tmp\r\n- a.txt\r\n", "Cancelled\r\n", "Stopped\r\n", "Stopped and deleted:\r\n- a\r\n",
				"Interrupted\r\n", "#CFG:eJyrVspJzEtXslJQKqhU0lFQSipNK86sSgUKGBoYGOgoKJVkluSmKlkpGBoZ1wIAKlwNGw==\n"}).Draw(rt, "fin")
			prog := rapid.SampledFrom([]string{"", "a.txt [\x1b[36m█████\x1b[0m] 100% | 1.00 KB | 1.00 KB/s | 00:00 ETA\r", "\x1b[?25l\x1b[?25h"}).Draw(rt, "prog")
			st.Chunk = []byte("\x1b7\x07" + g.text() + "\r\n" + prog + "\x1b8\x1b[0J" + fin)
			st.Class = "scrollback"
		case kind == 6: // tmux control-mode framing
			g := vfGenTrig(rt, freshID)
			hdr := rapid.SampledFrom([]string{"%output %1 ", "%output %23 ", "%extended-output %4 1024 : "}).Draw(rt, "hdr")
			st.Chunk = []byte(hdr + "\\0337\\007" + g.text() + "\\015\\012\r\n")
			st.Class = "control"
		default: // look-alike derived from a genuine trigger
			g := vfGenTrig(rt, freshID)
			txt := g.text()
			switch rapid.IntRange(0, 6).Draw(rt, "corrupt") {
			case 0:
				txt = txt[:rapid.IntRange(0, minInt(len(txt), 24)).Draw(rt, "cutat")]
			case 1:
				txt = strings.Replace(txt, ":"+g.Mode+":", ":"+rapid.SampledFrom([]string{"X", "s", "r", "", "SS"}).Draw(rt, "badmode")+":", 1)
			case 2:
				txt = vfMarker + g.Mode + ":" + rapid.SampledFrom([]string{"1.1", "1", "1..8", ".1.8", "a.b.c", "1.1.", "4294967296.0.0", "1.4294967296.1"}).Draw(rt, "badver")
			case 3:
				txt = strings.Replace(txt, "TRZSZ", rapid.SampledFrom([]string{"trzsz", "TRZSZGO", "TRZS", "TRZSZ "}).Draw(rt, "badmarker"), 1)
			case 4:
				p := rapid.IntRange(1, len(vfMarker)+2).Draw(rt, "inspos")
				txt = txt[:p] + rapid.SampledFrom([]string{" ", "\r\n", "\x1b[0m", "x"}).Draw(rt, "ins") + txt[p:]
			case 5:
				txt = strings.Replace(txt, "::", ":", 1)
			default:
				txt = strings.Replace(txt, "TRANSFER:", "TRANSFER", 1)
			}
			st.Chunk = append(append(vfGenPrefix(rt), txt...), vfGenSuffix(rt)...)
			st.Class = "lookalike"
		}
		cs.Steps = append(cs.Steps, st)
	}
	return cs
}

func TestVF_C06(t *testing.T) {
	c := vfNewCollector("C06", "TestVF_C06")
	vfCheck(t, c, vfGenC06, func(cs vfC06Case) string {
		msg, fired, suppressed := vfC06Run(cs)
		labels := []string{"client_mode"}
		if cs.Relay {
			labels[0] = "relay_mode"
		}
		nontrivial := len(cs.Steps) >= 2
		seen := map[string]bool{}
		for _, st := range cs.Steps {
			if !seen[st.Class] {
				seen[st.Class] = true
				labels = append(labels, "has_"+st.Class)
			}
			if st.Class == "trigger" && vfRefParse(st.Chunk) != nil && vfRefParse(st.Chunk).idx > 0 {
				nontrivial = true
			}
		}
		if suppressed > 0 {
			labels = append(labels, "repeat_suppressed")
		}
		if fired > 0 {
			labels = append(labels, "fired")
		}
		if len(cs.Steps) >= 60 {
			labels = append(labels, "history>=60")
		}
		c.eval(cs, nontrivial, labels...)
		return msg
	})
}

// ---------------------------------------------------------------------------------
// filter level: a genuine trigger makes the real filter start exactly one transfer (one #ACT: or #fail: line towards the
// server), everything else none. No download path / upload files are configured and no file dialog exists here, so every
// started transfer ends by itself with a #fail: line after about 150 ms.

func vfC06FilterRun(cs vfC06Case) (msg string, fired int) {
	old := windowsEnvironment
	defer func() { windowsEnvironment = old }()
	windowsEnvironment = cs.Windows
	vfCurCase("TestVF_C06Filter", cs)
	sess := vfNewSession(vfSessOpts{})
	defer sess.close()
	model := &vfIDModel{}
	countLines := func() int {
		b := sess.shellIn.bytes()
		return bytes.Count(b, []byte("#ACT:")) + bytes.Count(b, []byte("#fail:")) + bytes.Count(b, []byte("#FAIL:"))
	}
	for i, st := range cs.Steps {
		if st.Tunnel {
			continue // the tunnel flag belongs to filters with a connector; this filter has none
		}
		ref := vfRefParse(st.Chunk)
		expectTrigger := ref != nil
		if ref != nil {
			if vfControlHeader(st.Chunk[:ref.idx]) != "" {
				expectTrigger = false // control-mode framing without a tunnel
			}
			tail := st.Chunk[ref.idx:]
			if len(tail) > 40 {
				for _, w := range vfFinishedWords {
					if bytes.Contains(tail[40:], []byte(w)) {
						expectTrigger = false
					}
				}
			}
		}
		idExpect := +1
		if expectTrigger {
			idExpect = model.expect(ref.id, cs.Windows)
		}
		before := countLines()
		termBefore := sess.termOut.len()
		sess.shellOutput(st.Chunk)
		// a started handler answers within ~150 ms (cleanInput 100 ms + the send); wait a little longer
		deadline := time.Now().Add(1200 * time.Millisecond)
		for time.Now().Before(deadline) {
			if countLines() > before && time.Since(deadline.Add(-1200*time.Millisecond)) > 300*time.Millisecond {
				break
			}
			time.Sleep(5 * time.Millisecond)
			if !expectTrigger && time.Since(deadline.Add(-1200*time.Millisecond)) > 350*time.Millisecond {
				break
			}
		}
		time.Sleep(50 * time.Millisecond)
		n := countLines() - before
		switch {
		case !expectTrigger || idExpect == -1:
			if n != 0 {
				return fmt.Sprintf("step %d (%s): the filter started %d transfer(s) for %s (reference: none)", i, st.Class, n, vfShort(st.Chunk, 120)), fired
			}
			// and it is shown unchanged
			vfWaitLen(sess.termOut, termBefore+len(st.Chunk), time.Second)
			if got := sess.termOut.bytes()[termBefore:]; !bytes.Equal(got, st.Chunk) {
				return fmt.Sprintf("step %d (%s): output that starts no transfer was not shown unchanged: %s -> %s", i, st.Class, vfShort(st.Chunk, 80), vfShort(got, 80)), fired
			}
		case idExpect == 0:
			if n > 1 {
				return fmt.Sprintf("step %d: %d transfers started by one trigger", i, n), fired
			}
			if n == 1 {
				model.add(ref.id, cs.Windows, true)
			}
		default:
			if n != 1 {
				return fmt.Sprintf("step %d (%s): a genuine trigger started %d transfers (expected exactly one): %s", i, st.Class, n, vfShort(st.Chunk, 160)), fired
			}
			fired++
			model.add(ref.id, cs.Windows, true)
			got := sess.termOut.bytes()[termBefore:]
			if _, t2 := newTrzszDetector(false, false).detectTrzsz(append([]byte(nil), got...), false); t2 != nil {
				return fmt.Sprintf("step %d: the trigger is shown locally in a form a second wrapper still reacts to: %s", i, vfShort(got, 120)), fired
			}
		}
	}
	return "", fired
}

func TestVF_C06Filter(t *testing.T) {
	c := vfNewCollector("C06", "TestVF_C06Filter")
	vfCheck(t, c, func(rt *rapid.T) vfC06Case {
		cs := vfGenC06(rt)
		cs.Relay = false
		if len(cs.Steps) > 6 {
			cs.Steps = cs.Steps[:6]
		}
		return cs
	}, func(cs vfC06Case) string {
		msg, fired := vfC06FilterRun(cs)
		labels := []string{"filter_level"}
		if fired > 0 {
			labels = append(labels, "filter_started_a_transfer")
		}
		c.eval(cs, len(cs.Steps) >= 2 || fired > 0, labels...)
		return msg
	})
}
