//go:build verif

// C16 — protocol lines survive the noise tmux and the Windows console add.

package trzsz

import (
	"bytes"
	"fmt"
	"io"
	"strings"
	"testing"
	"time"

	"pgregory.net/rapid"
)

type vfC16Line struct {
	Type string `json:"type"`
	Body string `json:"body"`
}

type vfC16Case struct {
	Mode    string      `json:"mode"` // "tmux" | "win"
	Lines   []vfC16Line `json:"lines"`
	Stream  []byte      `json:"stream"`
	Cuts    []int       `json:"cuts"`
	CtrlC   bool        `json:"ctrlc"`    // a Ctrl-C was inserted into line CtrlCLn before its terminator
	CtrlCLn int         `json:"ctrlc_ln"` // index of the line that must be interrupted
	Noise   int         `json:"noise"`    // noise items placed inside a payload
	Kinds   []string    `json:"kinds"`    // noise kinds used (labels)
	Excl    int         `json:"excl"`     // known-finding shapes the generator skipped while building this case
	F12     bool        `json:"f12"`      // contains the known-finding shape (bare cursor move right after a dropped re-print)
}

func vfC16Run(cs vfC16Case) string {
	t := newTransfer(io.Discard, nil, false, nil)
	junkParam := false
	switch cs.Mode {
	case "win":
		t.windowsProtocol = true
	case "tmuxhs":
		junkParam = true // the handshake lines (ACT on the server, CFG on the client) are read junk-tolerantly before any config is known
	default:
		t.transferConfig.TmuxOutputJunk = true
	}
	for _, ch := range vfChunks(cs.Stream, cs.Cuts) {
		t.buffer.addBuffer(append([]byte(nil), ch...))
	}
	// sentinels so that a reader that missed a terminator ends instead of blocking
	if cs.Mode == "win" {
		t.buffer.addBuffer([]byte("Z!\n"))
		t.buffer.addBuffer([]byte("pZ!\n"))
	} else {
		t.buffer.addBuffer([]byte("Z\n"))
		t.buffer.addBuffer([]byte("Z\n"))
	}
	for i, ln := range cs.Lines {
		timeout := time.NewTimer(3 * time.Second)
		got, err := t.recvLine(ln.Type, junkParam, timeout.C)
		timeout.Stop()
		if cs.CtrlC && i == cs.CtrlCLn {
			if err == nil || err.Error() != "Interrupted" {
				return fmt.Sprintf("line %d: Ctrl-C inside the line, expected the interrupt error, got %s err=%v", i, vfShort(got, 60), err)
			}
			return ""
		}
		if err != nil {
			return fmt.Sprintf("line %d: error %v", i, err)
		}
		want := "#" + ln.Type + ":" + ln.Body
		if string(got) != want {
			return fmt.Sprintf("line %d (%s): got %s want %q", i, cs.Mode, vfShort(got, 80), want)
		}
	}
	return ""
}

const vfBodyAlphabet = "ABCDEFGHIJKLMNOPQRSTUVWXYZabcdefghijklmnopqrstuvwxyz0123456789+/="

var vfLineTypes = []string{"SUCC", "DATA", "NAME", "SIZE", "NUM", "MD5", "HASH", "ACT", "CFG", "EXIT", "COMP"}

type vfC16Builder struct {
	rt    *rapid.T
	out   bytes.Buffer
	kinds map[string]bool
	noise int
	excl  int
	noHash bool // status texts of the current line carry no '#'
}

func (b *vfC16Builder) kind(k string) { b.kinds[k] = true }

func vfSimpleCSI(rt *rapid.T) string {
	// sequences that do not end in 'H' after a digit
	return rapid.SampledFrom([]string{
		"\x1b[0m", "\x1b[01;32m", "\x1b[00m", "\x1b[K", "\x1b[2K", "\x1b[29C", "\x1b[1C", "\x1b[?25h", "\x1b[?25l",
		"\x1b[238X", "\x1b[199X\x1b[199C", "\x1b[!p", "\x1b[39;49m",
	}).Draw(rt, "csi")
}

func vfCUP(rt *rapid.T) string {
	return fmt.Sprintf("\x1b[%d;%dH", rapid.IntRange(1, 60).Draw(rt, "row"), rapid.IntRange(1, 240).Draw(rt, "col"))
}

// vfGenWinLine renders one protocol line with Windows-console decoration. It returns false in f12 if it emitted the
// known-finding shape.
func (b *vfC16Builder) winLine(payload string, allowF12 bool, ctrlCAt int) (f12 bool) {
	rt := b.rt
	// noise in front of the payload; '!' alone is allowed only while nothing has been collected
	pre := rapid.IntRange(0, 3).Draw(rt, "npre")
	collected := false
	for i := 0; i < pre; i++ {
		switch rapid.IntRange(0, 5).Draw(rt, "prekind") {
		case 0:
			b.out.WriteString(vfSimpleCSI(rt))
			b.kind("csi_before")
		case 1:
			b.out.WriteString("\r\n")
			b.kind("crlf_before")
		case 2:
			if !collected {
				b.out.WriteString("\x1b[H!" + vfCUP(rt))
				b.kind("bang_alone_before_payload")
			}
		case 3:
			b.out.WriteString(rapid.SampledFrom([]string{" ", "\t", "\x08", "  \x08"}).Draw(rt, "ws"))
			b.kind("padding_before")
		case 4:
			// unrelated text in front of the marker (letters are collected and then cut at the marker)
			b.out.WriteString(rapid.SampledFrom([]string{"abc", "C:\\Users\\x>", "#x", "PS 1+1=2 "}).Draw(rt, "junk"))
			collected = true
			b.kind("text_before_marker")
		default:
		}
	}
	staleThroughNext := false
	cupPending := false   // a bare cursor move was emitted since the last kept letter: an LF now would look like a wrap + re-print
	afterReprint := false // directly after a dropped re-print / cursor-home replacement, before the next kept letter
	newlineSinceLetter := false
	for i := 0; i < len(payload); i++ {
		if i == ctrlCAt {
			b.out.WriteByte(0x03)
		}
		c := payload[i]
		b.out.WriteByte(c)
		// this letter replaced a stray one (cursor-home form): the reader's "newline seen" state is still that of the
		// replaced character until the next kept letter, exactly as after a dropped re-print
		afterReprint = staleThroughNext
		newlineSinceLetter = staleThroughNext
		staleThroughNext = false
		cupPending = false
		if i == len(payload)-1 {
			break
		}
		n := 0
		if rapid.IntRange(0, 3).Draw(rt, "has_noise") == 0 {
			n = rapid.IntRange(1, 3).Draw(rt, "nnoise")
		}
		for k := 0; k < n; k++ {
			switch rapid.IntRange(0, 7).Draw(rt, "noisekind") {
			case 0, 1:
				b.out.WriteString(vfSimpleCSI(rt))
				b.kind("csi_inside")
				b.noise++
			case 2:
				b.out.WriteString(rapid.SampledFrom([]string{" ", "\t", "\x08", " \x08"}).Draw(rt, "ws"))
				b.kind("padding_inside")
				b.noise++
			case 3:
				if cupPending {
					continue
				}
				b.out.WriteString("\r\n")
				newlineSinceLetter = true
				b.kind("crlf_inside")
				b.noise++
			case 4:
				// wrap, cursor position, re-printed last character (the documented situation)
				if rapid.Bool().Draw(rt, "barelf") {
					b.out.WriteString(vfCUP(rt) + "\x1b[?25l\n" + vfCUP(rt))
				} else {
					b.out.WriteString("\r\n")
					if rapid.Bool().Draw(rt, "fwd") {
						b.out.WriteString("\x1b[90C")
					}
					b.out.WriteString(vfCUP(rt))
				}
				b.out.WriteByte(c)
				afterReprint = true
				newlineSinceLetter = true
				b.kind("wrap_cup_reprint")
				b.noise++
				if c == payload[i+1] {
					b.kind("reprint_equals_next")
				}
				if i > 0 && c == payload[i-1] {
					b.kind("reprint_equals_prev")
				}
			case 5:
				// cursor move without a wrap: allowed only while no LF was seen since the last kept letter
				if newlineSinceLetter {
					if afterReprint && !allowF12 {
						b.excl++
					}
					if afterReprint && allowF12 {
						b.out.WriteString("\x1b[199X\x1b[199C" + vfCUP(rt))
						f12 = true
						b.kind("cup_right_after_reprint(F12)")
					}
					continue
				}
				b.out.WriteString("\x1b[199X\x1b[199C" + vfCUP(rt) + "\x1b[?25h\x1b[?25l")
				cupPending = true
				b.kind("cup_no_wrap")
				b.noise++
			case 6:
				// cursor home + stray character + reposition + wrap; the next payload character replaces the stray one
				if newlineSinceLetter {
					continue
				}
				stray := vfBodyAlphabet[rapid.IntRange(0, len(vfBodyAlphabet)-1).Draw(rt, "stray")]
				b.out.WriteString("\x08\x1b[?25h\x1b[?25l\x1b[H")
				// the console repaints the top-left cell with its attributes: colour / visibility / erase sequences and padding
				// may sit between the cursor-home and the character
				for m := rapid.IntRange(0, 2).Draw(rt, "home_attrs"); m > 0; m-- {
					b.out.WriteString(rapid.SampledFrom([]string{"\x1b[0m", "\x1b[01;32m", "\x1b[K", "\x1b[2K", "\x1b[?25h", "\x1b[?25l", "\x1b[39;49m", " ", "\x1b[1C"}).Draw(rt, "home_attr"))
					b.kind("attrs_between_home_and_stray")
				}
				b.out.WriteByte(stray)
				b.out.WriteString(vfCUP(rt) + "\x1b[?25h\x1b[?25l\r\n")
				newlineSinceLetter = true
				afterReprint = true
				staleThroughNext = true
				b.kind("cursor_home_stray")
				b.noise++
				k = n // the next payload character must follow directly
			case 7:
				b.out.WriteString("\x1b[!p")
				b.kind("bang_inside_escape")
				b.noise++
			}
		}
	}
	// trailing noise before the terminator (no letters)
	if rapid.IntRange(0, 3).Draw(rt, "trail") == 0 {
		b.out.WriteString(rapid.SampledFrom([]string{" ", "\x1b[0m", "\x1b[K", "\r\n", "\x08 "}).Draw(rt, "trailnoise"))
		b.kind("noise_before_terminator")
	}
	if ctrlCAt >= len(payload) {
		b.out.WriteByte(0x03)
	}
	b.out.WriteByte('!')
	switch rapid.IntRange(0, 2).Draw(rt, "afterbang") {
	case 0:
		b.out.WriteByte('\n')
		b.kind("terminator_with_lf")
	case 1:
		b.out.WriteString("\x1b[00m")
		b.kind("csi_after_terminator")
	default:
		b.kind("terminator_without_lf")
	}
	return f12
}

func (b *vfC16Builder) tmuxStatusPair() string {
	rt := b.rt
	content := rapid.SampledFrom([]string{"", "[0] 0:bash*", " 12:34 27-Sep ", "\x1b[m\x1b[7mstatus\x1b[27m", "a#b", "\r\n", "x\r\ny"}).Draw(rt, "status")
	if b.noHash {
		content = strings.ReplaceAll(content, "#", "+")
	}
	return "\x1bP=1s\x1b\\" + content + "\x1bP=2s\x1b\\"
}

func (b *vfC16Builder) tmuxLine(payload string, ctrlCAt int) {
	rt := b.rt
	// a status string may also land inside the marker itself ("#DA<status>TA:"). The marker is then found by its '#' alone, so in
	// such a line no status text carries a '#' of its own (one that does would be taken for the marker: out of the documented shape)
	inMarker := -1
	b.noHash = false
	if rapid.IntRange(0, 7).Draw(rt, "status_in_marker") == 0 {
		inMarker = rapid.IntRange(0, 4).Draw(rt, "status_in_marker_at")
		b.noHash = true
	}
	defer func() { b.noHash = false }()
	pre := rapid.IntRange(0, 3).Draw(rt, "npre")
	for i := 0; i < pre; i++ {
		switch rapid.IntRange(0, 3).Draw(rt, "prekind") {
		case 0:
			b.out.WriteString(rapid.SampledFrom([]string{"junk", "user@host:~$ trz", "#", "#x:y", "\x1b[?25l", "\r", "abc\r\n", "#SUCC", "%"}).Draw(rt, "junk"))
			b.kind("text_before_marker")
		case 1:
			b.out.WriteString(b.tmuxStatusPair())
			b.kind("status_pair_at_start")
		case 2:
			b.out.WriteString("\r\n")
			b.kind("crlf_before")
		default:
		}
	}
	for i := 0; i < len(payload); i++ {
		if i == ctrlCAt {
			b.out.WriteByte(0x03)
		}
		b.out.WriteByte(payload[i])
		if i == len(payload)-1 {
			break
		}
		if i == inMarker && i < len(payload)-2 {
			b.out.WriteString(b.tmuxStatusPair())
			b.kind("status_pair_inside_marker")
			b.noise++
		}
		if rapid.IntRange(0, 4).Draw(rt, "has_noise") != 0 {
			continue
		}
		n := rapid.IntRange(1, 2).Draw(rt, "nnoise")
		for k := 0; k < n; k++ {
			switch rapid.IntRange(0, 2).Draw(rt, "noisekind") {
			case 0, 1:
				b.out.WriteString("\r\n")
				b.kind("wrap_inside")
				b.noise++
			case 2:
				if i < 5 { // inside the marker itself: the line is cut at the marker before the strip, out of the documented shape
					continue
				}
				b.out.WriteString(b.tmuxStatusPair())
				b.kind("status_pair_inside")
				b.noise++
			}
		}
	}
	switch rapid.IntRange(0, 5).Draw(rt, "trail") {
	case 0:
		b.out.WriteString("\r\n") // wrap directly before the terminator
		b.kind("wrap_before_terminator")
		b.noise++
	case 1:
		b.out.WriteString(b.tmuxStatusPair())
		b.kind("status_pair_at_end")
		b.noise++
	case 2:
		// a truncated status string at the end of the line
		b.out.WriteString(rapid.SampledFrom([]string{"\x1bP=1s\x1b\\[0] 0:ba", "\x1bP=1s\x1b\\xx\x1bP=2s", "\x1bP=1s"}).Draw(rt, "trunc"))
		b.kind("truncated_status_at_end")
		b.noise++
	}
	if ctrlCAt >= len(payload) {
		b.out.WriteByte(0x03)
	}
	b.out.WriteByte('\n')
}

func vfGenC16(rt *rapid.T) vfC16Case {
	var cs vfC16Case
	cs.Mode = rapid.SampledFrom([]string{"tmux", "win", "tmux", "win", "tmuxhs"}).Draw(rt, "mode")
	allowF12 := !vfKnown("F12") // while F12 is a listed finding its shape is excluded by construction (and counted)
	b := &vfC16Builder{rt: rt, kinds: map[string]bool{}}
	nlines := rapid.IntRange(1, 3).Draw(rt, "nlines")
	cs.CtrlCLn = -1
	if rapid.IntRange(0, 5).Draw(rt, "ctrlc") == 0 {
		cs.CtrlC = true
		cs.CtrlCLn = rapid.IntRange(0, nlines-1).Draw(rt, "ctrlcln")
	}
	for i := 0; i < nlines; i++ {
		var ln vfC16Line
		ln.Type = rapid.SampledFrom(vfLineTypes).Draw(rt, "type")
		n := rapid.IntRange(0, 40).Draw(rt, "bodylen")
		if rapid.IntRange(0, 9).Draw(rt, "longbody") == 0 {
			n = rapid.IntRange(40, 400).Draw(rt, "bodylen2")
		}
		small := rapid.Bool().Draw(rt, "smallalpha") // repeated characters make the duplicate rules bite
		body := make([]byte, n)
		for j := range body {
			if small {
				body[j] = "AB8/"[rapid.IntRange(0, 3).Draw(rt, "ch")]
			} else {
				body[j] = vfBodyAlphabet[rapid.IntRange(0, len(vfBodyAlphabet)-1).Draw(rt, "ch")]
			}
		}
		ln.Body = string(body)
		payload := "#" + ln.Type + ":" + ln.Body
		ctrlCAt := -1
		ctrlRaw := false
		if cs.CtrlC && i == cs.CtrlCLn {
			ctrlCAt = rapid.IntRange(0, len(payload)).Draw(rt, "ctrlcat")
			// or anywhere in the rendered line, noise included: inside an escape sequence, inside a status string, after a CR
			ctrlRaw = rapid.Bool().Draw(rt, "ctrlc_anywhere")
			if ctrlRaw {
				ctrlCAt = -1
			}
		}
		lineStart := b.out.Len()
		if cs.Mode == "win" {
			if b.winLine(payload, allowF12, ctrlCAt) {
				cs.F12 = true
			}
		} else {
			b.tmuxLine(payload, ctrlCAt)
		}
		if ctrlRaw {
			seg := append([]byte(nil), b.out.Bytes()[lineStart:]...)
			end := len(seg) - 1 // tmux: the final LF
			if cs.Mode == "win" {
				end = bytes.LastIndexByte(seg, '!')
			}
			if end < 0 {
				end = 0
			}
			at := rapid.IntRange(0, end).Draw(rt, "ctrlc_offset")
			b.out.Truncate(lineStart)
			b.out.Write(seg[:at])
			b.out.WriteByte(0x03)
			b.out.Write(seg[at:])
			b.kind("ctrl_c_anywhere_in_the_rendered_line")
		}
		cs.Lines = append(cs.Lines, ln)
		if cs.CtrlC && i == cs.CtrlCLn {
			break
		}
	}
	cs.Stream = append([]byte(nil), b.out.Bytes()...)
	cs.Cuts = vfGenCuts(rt, len(cs.Stream), "cut")
	cs.Noise = b.noise
	cs.Excl = b.excl
	for k := range b.kinds {
		cs.Kinds = append(cs.Kinds, k)
	}
	// deterministic order
	for i := 1; i < len(cs.Kinds); i++ {
		for j := i; j > 0 && cs.Kinds[j] < cs.Kinds[j-1]; j-- {
			cs.Kinds[j], cs.Kinds[j-1] = cs.Kinds[j-1], cs.Kinds[j]
		}
	}
	return cs
}

func TestVF_C16(t *testing.T) {
	c := vfNewCollector("C16", "TestVF_C16")
	vfCheck(t, c, vfGenC16, func(cs vfC16Case) string {
		msg := vfC16Run(cs)
		labels := []string{"mode_" + cs.Mode}
		if cs.CtrlC {
			labels = append(labels, "ctrl_c")
		}
		for _, k := range cs.Kinds {
			labels = append(labels, cs.Mode+":"+k)
		}
		c.eval(cs, cs.Noise >= 1, labels...)
		if cs.Excl > 0 {
			c.exclude(int64(cs.Excl))
		}
		return msg
	})
}

// TestVF_C16KnownF12 re-confirms the recorded finding F12 with its saved input (only while it is listed as known).
func TestVF_C16KnownF12(t *testing.T) {
	c := vfNewCollector("C16", "TestVF_C16KnownF12")
	defer vfFlushAll()
	if !vfKnown("F12") || vfReplayOnly() {
		return
	}
	// wrap + cursor position + re-printed 'C' (dropped), then a bare cursor move and the genuine next 'C'
	cs := vfC16Case{Mode: "win", Lines: []vfC16Line{{Type: "SUCC", Body: "CCAAAA"}},
		Stream: []byte("#SUCC:C\r\n\x1b[25;119HC\x1b[199X\x1b[199C\x1b[60;40HCAAAA!\n"), F12: true}
	msg := vfC16Run(cs)
	c.eval(cs, true, "known_F12_confirm")
	if msg != "" {
		c.known("F12", cs, msg)
	} else {
		c.note("known finding F12 did not reproduce on this tree")
	}
}
