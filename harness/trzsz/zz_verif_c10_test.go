//go:build verif

// C10 — stopping ends a transfer promptly on both sides and removes only what it made.

package trzsz

import (
	"bytes"
	"fmt"
	"os"
	"path/filepath"
	"regexp"
	"strings"
	"sync"
	"syscall"
	"testing"
	"time"
)

type vfC10Case struct {
	Scen      vfScenario `json:"scenario"`
	Ev        vfEvent    `json:"event"`
	Delete    bool       `json:"delete"`
	Initiator string     `json:"initiator"` // api | ui | sigint | sigterm
	Plan      []vfYieldStep `json:"plan,omitempty"` // schedule perturbation (yield-instrumented build only)
	LateUs    int        `json:"late_us,omitempty"` // api stops: published this long after the message has passed
}

type vfC10Res struct {
	afterChoice time.Duration // ui initiators: from the user's choice at the prompt until both sides had ended
	fired    bool
	outcome  string
	elapsed  time.Duration
	midway   bool
}

func vfTypeKeys(sess *vfSession, keys ...string) {
	for _, k := range keys {
		sess.typeInput([]byte(k))
		time.Sleep(30 * time.Millisecond)
	}
}

// vfAnswerPrompt waits for the stop/continue question and answers it.
func vfAnswerPrompt(sess *vfSession, from int, keys ...string) bool {
	deadline := time.Now().Add(5 * time.Second)
	for time.Now().Before(deadline) {
		if bytes.Contains(sess.termOut.bytes()[from:], []byte("Are you sure")) {
			time.Sleep(50 * time.Millisecond)
			vfTypeKeys(sess, keys...)
			return true
		}
		time.Sleep(5 * time.Millisecond)
	}
	return false
}

// vfHesitation: how long the slow user looks at the stop question before choosing
const vfHesitation = 2200 * time.Millisecond

func vfC10Run(cs vfC10Case, res *vfC10Res) string {
	var run0 *vfSessRun
	sc := cs.Scen
	e, err := vfScenSetup(sc)
	if err != nil {
		return "setup: " + err.Error()
	}
	defer e.cleanup()
	vfCurCase("TestVF_C10", cs)
	if len(cs.Plan) > 0 {
		vfInstallPlan(cs.Plan)
		defer vfClearPlan()
	}
	sess := vfNewSession(sc.Sess)
	defer sess.close()
	var choiceMu sync.Mutex
	var choiceAt time.Time
	defer func() {
		choiceMu.Lock()
		if !choiceAt.IsZero() && run0 != nil {
			res.afterChoice = run0.started.Add(run0.wall).Sub(choiceAt)
		}
		choiceMu.Unlock()
	}()
	fire := func() {
		switch cs.Initiator {
		case "api":
			if cs.LateUs > 0 {
				// a moment after the message has passed: the receiving side has taken it in and moved on (into a hold of the plan)
				go func() {
					time.Sleep(time.Duration(cs.LateUs) * time.Microsecond)
					sess.filter.StopTransferringFiles(cs.Delete)
				}()
			} else {
				sess.filter.StopTransferringFiles(cs.Delete)
			}
		case "sigint":
			sess.signalServer(syscall.SIGINT)
		case "sigterm":
			sess.signalServer(syscall.SIGTERM)
		case "ui", "ui_slow":
			from := sess.termOut.len()
			go func() {
				sess.typeInput([]byte{0x03})
				if cs.Initiator == "ui_slow" {
					// the user looks at the question for a while before choosing (shorter than the timeout: the tail of a file has no keep-alives)
					deadline := time.Now().Add(5 * time.Second)
					for time.Now().Before(deadline) && !bytes.Contains(sess.termOut.bytes()[from:], []byte("Are you sure")) {
						time.Sleep(5 * time.Millisecond)
					}
					time.Sleep(vfHesitation)
				}
				asked := false
				if cs.Delete {
					asked = vfAnswerPrompt(sess, from, "j", "\r")
				} else {
					asked = vfAnswerPrompt(sess, from, "\x03")
				}
				if asked {
					choiceMu.Lock()
					choiceAt = time.Now()
					choiceMu.Unlock()
				}
			}()
		}
	}
	tk := vfArm(sess, sc.Cfg.Upload, cs.Ev, fire)
	run, err := vfStartTransfer(sess, sc.Cfg, e.paths, e.dest)
	if err != nil {
		return "cannot start: " + err.Error()
	}
	run0 = run
	const bound = 12 * time.Second // T (3 s) + drain constants + generous slack
	run.finish(45 * time.Second)
	tk.mu.Lock()
	fired, firedAt, doneAtFire := tk.fired, tk.firedAt, tk.doneAtFire
	tk.mu.Unlock()
	res.fired = fired
	if !run.serverEnded || !run.clientIdle {
		return fmt.Sprintf("a side did not end after the stop (%s at %+v): %s", cs.Initiator, cs.Ev, run.describe())
	}
	if fired {
		res.elapsed = time.Since(firedAt) - (time.Since(run.started) - run.wall)
		if res.elapsed > bound {
			return fmt.Sprintf("both sides ended only %v after the stop (bound %v): %s", res.elapsed, bound, run.describe())
		}
	}
	collide := sc.Pre == "collide" && !sc.Cfg.Overwrite
	destName := func(rel string) string {
		if !collide {
			return rel
		}
		parts := strings.SplitN(rel, string(filepath.Separator), 2)
		parts[0] += ".0"
		return filepath.Join(parts...)
	}
	same, _ := e.identicalFiles(destName)
	total := len(e.fileRel)
	after, err := vfSnapshot(e.dest)
	if err != nil {
		return "snapshot: " + err.Error()
	}
	// bystanders and everything that existed and is not a name being replaced stay exactly as they were
	replaced := map[string]bool{}
	if sc.Cfg.Overwrite {
		for _, rel := range e.fileRel {
			replaced[rel] = true
		}
	}
	for k, b := range e.preSnap {
		if replaced[k] {
			continue
		}
		a, ok := after[k]
		if !ok {
			return fmt.Sprintf("pre-existing %q was removed (%s)", k, run.describe())
		}
		if a.Dir != b.Dir || a.Sum != b.Sum || (!a.Dir && a.MT != b.MT) {
			return fmt.Sprintf("pre-existing %q was modified (%s)", k, run.describe())
		}
	}
	serverOK, clientOK := run.serverSuccess(), run.clientSuccess()
	if serverOK || clientOK {
		res.outcome = "success"
		if same != total {
			return fmt.Sprintf("a side reported success but only %d of %d files are complete and identical (stop %s at %+v; %s)", same, total, cs.Initiator, cs.Ev, run.describe())
		}
		return ""
	}
	res.outcome = "stopped"
	res.midway = true
	if (cs.Initiator == "ui" || cs.Initiator == "ui_slow") && strings.HasPrefix(run.serverMsg, "Interrupted") && cs.Ev.Dir == "s2c" && cs.Ev.K == 0 && !sc.Sess.Tunnel {
		// the user's Ctrl-C came while the trigger was still on its way through the client: no transfer existed there yet, so the
		// key went to the remote side like any other key and the server, still waiting for the action, reports the interrupt in
		// its own word. That is a stop report (nothing has been created yet); the stop / delete question is never asked.
		res.outcome = "interrupted_before_the_client_had_a_transfer"
		if len(after) != len(e.preSnap) {
			return fmt.Sprintf("interrupted in the handshake but the destination changed (%s)", run.describe())
		}
		return ""
	}
	if !strings.HasPrefix(run.serverMsg, "Stopped") {
		res.outcome = "other_error"
		return fmt.Sprintf("the server reported neither stopped nor success: %s", run.describe())
	}
	if cs.Delete && cs.Initiator != "sigint" && cs.Initiator != "sigterm" {
		// everything this transfer created (or had begun to replace) is gone
		for k := range after {
			if _, existed := e.preSnap[k]; !existed {
				return fmt.Sprintf("stop-and-delete left %q behind, which this transfer created (%s)", k, run.describe())
			}
		}
		for rel := range replaced {
			a, ok := after[rel]
			b := e.preSnap[rel]
			if ok && (a.Sum != b.Sum || a.Size != b.Size) {
				return fmt.Sprintf("stop-and-delete left %q half replaced (%d bytes, was %d) (%s)", rel, a.Size, b.Size, run.describe())
			}
		}
		if !strings.HasPrefix(run.serverMsg, "Stopped and deleted") && len(after) != len(e.preSnap) {
			return "server did not report the deletion: " + run.describe()
		}
	} else {
		// plain stop: files already completed (MD5 acknowledged before the stop) are kept intact
		if same < doneAtFire {
			return fmt.Sprintf("plain stop: %d files had been completed and verified before the stop, only %d are intact afterwards (%s)", doneAtFire, same, run.describe())
		}
	}
	return ""
}

func vfC10Eval(c *vfCollector, cs vfC10Case, res *vfC10Res) {
	labels := []string{"scenario_" + cs.Scen.Name, "initiator_" + cs.Initiator, "outcome_" + res.outcome}
	if cs.Delete {
		labels = append(labels, "stop_and_delete")
	} else {
		labels = append(labels, "stop_keep")
	}
	if !res.fired {
		labels = append(labels, "event_never_reached")
	}
	c.eval(cs, res.fired && res.midway, labels...)
}

// TestVF_C10 enumerates stop points: every (direction, message index, before|after) of the fault-free run of each
// scenario x stop kind x initiator; VERIF_C10_STRIDE thins the enumeration for the quick tier.
func TestVF_C10(t *testing.T) {
	c := vfNewCollector("C10", "TestVF_C10")
	defer vfFlushAll()
	for _, f := range vfCaseFilesFor(c.Test) {
		var cs vfC10Case
		if err := jsonUnmarshal(f.Case, &cs); err != nil {
			t.Errorf("bad case file %s: %v", f.Path, err)
			continue
		}
		var res vfC10Res
		msg := vfGuard(func() string { return vfC10Run(cs, &res) })
		if msg == "" && cs.Initiator == "ui_slow" && res.afterChoice > 0 {
			msg = vfC10SlowVsFast(cs, res.afterChoice)
		}
		if msg != "" {
			c.violation("regress:"+filepath.Base(f.Path), cs, msg)
			t.Errorf("case file %s fails: %s", f.Path, msg)
		}
		vfC10Eval(c, cs, &res)
	}
	if vfReplayOnly() || t.Failed() {
		return
	}
	shard, shards := vfShard()
	stride := vfEnvInt("VERIF_C10_STRIDE", 1)
	nscen := vfEnvInt("VERIF_C10_SCENARIOS", 99)
	seed := vfEnvInt("VERIF_SEED", 1)
	for si, sc := range append(vfScenarios(), vfTunnelScenarios()...) {
		if si >= nscen {
			break
		}
		// every shard numbers the messages itself so that all shards agree on the job numbering
		nc, ns, msg := vfDryRun(sc)
		if msg != "" {
			c.inconclusive("fault_free_dry_run_failed")
			c.note("a fault-free dry run failed three times, its scenario was skipped in this shard: " + msg)
			continue
		}
		for _, initiator := range []string{"api", "ui", "ui_slow", "sigint", "sigterm"} {
			for _, del := range []bool{false, true} {
				if del && (initiator == "sigint" || initiator == "sigterm") {
					continue
				}
				if (initiator == "ui" || initiator == "ui_slow") && sc.Cfg.Protocol < 3 {
					continue // the stop/continue question needs a pausable protocol
				}
				for _, dir := range []string{"c2s", "s2c"} {
					n := nc
					if dir == "s2c" {
						n = ns
					}
					for k := 0; k < n; k++ {
						for _, before := range []bool{true, false} {
							// shard and thinning by a hash of the point itself: independent of what other shards counted
							h := vfPointHash(sc.Name, initiator, del, dir, k, before)
							if int(h%uint64(shards)) != shard {
								continue
							}
							// the hand-over from one file to the next (MD5, its acknowledgement, the next NAME) is never thinned for the stops
							// through the API: a few points per scenario, and the place where a stop meets the loop over the files
							core := initiator == "api" && vfBetweenFiles(dir, k)
							if !core && (int(h/uint64(shards)%1000003)+seed)%stride != 0 {
								continue
							}
							if k == 0 && (initiator == "sigint" || initiator == "sigterm") {
								// the trigger line / the ACT line: the server installs its signal handlers just after printing the trigger; a
								// signal that beats them ends the process by default action before the transfer exists (the client is then on
								// its built-in 20 s). Signals are sent from the moment the server has answered the action.
								continue
							}
							cs := vfC10Case{Scen: sc, Ev: vfEvent{Dir: dir, K: k, Before: before}, Delete: del, Initiator: initiator}
							var res vfC10Res
							m := vfGuard(func() string { return vfC10Run(cs, &res) })
							if m != "" && (strings.Contains(m, "did not end") || strings.Contains(m, "ended only")) {
								// timing verdict: re-run up to twice, report only if it reproduces
								again := 0
								for r := 0; r < 2; r++ {
									var res2 vfC10Res
									if m2 := vfGuard(func() string { return vfC10Run(cs, &res2) }); m2 != "" {
										again++
									}
								}
								if again == 0 {
									c.inconclusive("timing_not_reproduced")
									m = ""
								}
							}
							if m == "" && initiator == "ui_slow" && res.afterChoice > 0 {
								// how long the user looked at the question must not matter for how promptly the stop takes effect: compare
								// with the same stop chosen at once (both measured from the choice; load slows both alike)
								m = vfC10SlowVsFast(cs, res.afterChoice)
							}
							vfC10Eval(c, cs, &res)
							if m != "" {
								c.violation("enumerated", cs, m)
								t.Errorf("%s", m)
								return
							}
						}
					}
				}
			}
		}
	}
}


// vfC10SlowVsFast re-runs a slow-user stop with an immediate choice and compares the time from the choice to the end of both sides.
// A difference of more than 60 % of the hesitation must show twice.
func vfC10SlowVsFast(cs vfC10Case, slow time.Duration) string {
	limit := vfHesitation * 6 / 10
	for attempt := 0; ; attempt++ {
		fast := cs
		fast.Initiator = "ui"
		var fr vfC10Res
		if m := vfGuard(func() string { return vfC10Run(fast, &fr) }); m != "" || fr.afterChoice <= 0 {
			return "" // the immediate choice has its own verdict elsewhere in the enumeration
		}
		if slow-fr.afterChoice <= limit {
			return ""
		}
		if attempt == 1 {
			return fmt.Sprintf("after the user had looked at the stop question for %v both sides ended %v after the choice, but %v after an immediate choice at the same point (%+v): the time spent at the prompt delays the stop",
				vfHesitation, slow.Round(time.Millisecond), fr.afterChoice.Round(time.Millisecond), cs.Ev)
		}
		var sr vfC10Res
		if m := vfGuard(func() string { return vfC10Run(cs, &sr) }); m != "" || sr.afterChoice <= 0 {
			return ""
		}
		slow = sr.afterChoice
	}
}

// vfSitesInFunc lists the yield sites inside one function of an instrumented source file of the scratch copy.
func vfSitesInFunc(file, funcHeader string) []string {
	b, err := os.ReadFile(file)
	if err != nil {
		return nil
	}
	i := bytes.Index(b, []byte(funcHeader))
	if i < 0 {
		return nil
	}
	end := bytes.Index(b[i:], []byte("\n}\n"))
	if end < 0 {
		return nil
	}
	var out []string
	for _, m := range regexp.MustCompile(`vfYield\("([^"]+)"\)`).FindAllSubmatch(b[i:i+end], -1) {
		out = append(out, string(m[1]))
	}
	return out
}

// TestVF_C10Perturbed: the stop is published while other stages poll the stop flags. A delay is placed in front of every
// statement of stopTransferringFiles / checkStop / clientError in turn (yield-instrumented build), for stops through the
// exported API at a few points in the middle of each scenario.
func TestVF_C10Perturbed(t *testing.T) {
	c := vfNewCollector("C10", "TestVF_C10Perturbed")
	defer vfFlushAll()
	for _, f := range vfCaseFilesFor(c.Test) {
		var cs vfC10Case
		if err := jsonUnmarshal(f.Case, &cs); err != nil {
			t.Errorf("bad case file %s: %v", f.Path, err)
			continue
		}
		var res vfC10Res
		if msg := vfGuard(func() string { return vfC10Run(cs, &res) }); msg != "" {
			c.violation("regress:"+filepath.Base(f.Path), cs, msg)
			t.Errorf("case file %s fails: %s", f.Path, msg)
		}
		vfC10Eval(c, cs, &res)
	}
	if vfReplayOnly() || t.Failed() {
		return
	}
	var sites []string
	for _, fn := range []string{"func (t *trzszTransfer) stopTransferringFiles(", "func (t *trzszTransfer) checkStop(", "func (t *trzszTransfer) clientError(", "func (t *trzszTransfer) checkStopAndPause("} {
		f := "transfer.go"
		if strings.Contains(fn, "checkStopAndPause") {
			f = "pipeline.go"
		}
		sites = append(sites, vfSitesInFunc(f, fn)...)
	}
	coreSites := map[string]bool{}
	for _, s := range vfSitesInFunc("transfer.go", "func (t *trzszTransfer) stopTransferringFiles(") {
		coreSites[s] = true
	}
	if len(sites) == 0 {
		c.note("sources are not yield-instrumented: the perturbed variant did not run")
		c.eval(map[string]any{"perturbed": "not instrumented"}, false, "not_instrumented")
		return
	}
	shard, shards := vfShard()
	stride := vfEnvInt("VERIF_C10P_STRIDE", 1)
	seed := vfEnvInt("VERIF_SEED", 1)
	for _, sc := range vfScenarios() {
		if sc.Cfg.Protocol < 2 {
			continue
		}
		nc, ns, msg := vfDryRun(sc)
		if msg != "" {
			c.inconclusive("fault_free_dry_run_failed")
			c.note("a fault-free dry run failed three times, its scenario was skipped in this shard: " + msg)
			continue
		}
		// the loop over the files: a stop that arrives just when one file has been acknowledged and the next has not begun. Every
		// statement of sendFiles / recvFiles in turn is held for 15 ms on each pass, and the stop is published when the first
		// MD5 acknowledgement of the transfer passes: it then lands inside that hold.
		firstAck := -1
		ackDir := "s2c"
		if !sc.Cfg.Upload {
			ackDir = "c2s"
		}
		ackN := ns
		if !sc.Cfg.Upload {
			ackN = nc
		}
		for k := 0; k < ackN; k++ {
			ms := vfLastDry.s2c
			if !sc.Cfg.Upload {
				ms = vfLastDry.c2s
			}
			if k < len(ms) && ms[k].Typ == "SUCC" && vfBetweenFiles(ackDir, k) {
				firstAck = k
				break
			}
		}
		if firstAck >= 0 && sc.Files > 1 {
			fn := "func (t *trzszTransfer) sendFiles("
			if !sc.Cfg.Upload {
				fn = "func (t *trzszTransfer) recvFiles("
			}
			for _, site := range vfSitesInFunc("transfer.go", fn) {
				for _, del := range []bool{true, false} {
					h := vfPointHash(sc.Name, "fileloop", site, del)
					if int(h%uint64(shards)) != shard {
						continue
					}
					var plan []vfYieldStep
					for hit := 0; hit < 6; hit++ {
						plan = append(plan, vfYieldStep{Site: site, Hit: hit, Delay: 15000})
					}
					cs := vfC10Case{Scen: sc, Ev: vfEvent{Dir: ackDir, K: firstAck, Before: false}, Delete: del, Initiator: "api", Plan: plan, LateUs: 6000}
					var res vfC10Res
					m := vfGuard(func() string { return vfC10Run(cs, &res) })
					if m != "" && (strings.Contains(m, "did not end") || strings.Contains(m, "ended only")) {
						var r2 vfC10Res
						if m2 := vfGuard(func() string { return vfC10Run(cs, &r2) }); m2 == "" {
							c.inconclusive("timing_not_reproduced")
							m = ""
						}
					}
					vfC10Eval(c, cs, &res)
					c.label("perturbed_file_loop")
					if m != "" {
						c.violation("perturbed", cs, m)
						t.Errorf("%s", m)
						return
					}
				}
			}
		}
		for _, site := range sites {
			for _, del := range []bool{true, false} {
				for _, frac := range []int{30, 50, 70} {
					for _, dir := range []string{"c2s", "s2c"} {
						n := nc
						if dir == "s2c" {
							n = ns
						}
						k := n * frac / 100
						for _, delay := range []int{2000, 15000} {
							h := vfPointHash(sc.Name, site, del, frac, dir, delay)
							// the core of the sweep is never thinned: delays inside stopTransferringFiles itself, stop-and-delete, long delay
							core := coreSites[site] && del && delay >= 15000 && frac == 50
							if int(h%uint64(shards)) != shard || (!core && (int(h/uint64(shards)%1000003)+seed)%stride != 0) {
								continue
							}
							cs := vfC10Case{Scen: sc, Ev: vfEvent{Dir: dir, K: k, Before: false}, Delete: del, Initiator: "api",
								Plan: []vfYieldStep{{Site: site, Hit: 0, Delay: delay}}}
							var res vfC10Res
							m := vfGuard(func() string { return vfC10Run(cs, &res) })
							if m != "" && (strings.Contains(m, "did not end") || strings.Contains(m, "ended only")) {
								var r2 vfC10Res
								if m2 := vfGuard(func() string { return vfC10Run(cs, &r2) }); m2 == "" {
									c.inconclusive("timing_not_reproduced")
									m = ""
								}
							}
							vfC10Eval(c, cs, &res)
							c.label("perturbed")
							if m != "" {
								c.violation("perturbed", cs, m)
								t.Errorf("%s", m)
								return
							}
						}
					}
				}
			}
		}
	}
}
