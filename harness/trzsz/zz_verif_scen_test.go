//go:build verif

// Scenarios for the fault-enumeration properties (C10 stop, C11 hang, C18 pause): a real transfer on the session engine
// plus one event bound to a protocol message (direction, index, before|after).

package trzsz

import (
	"fmt"
	"os"
	"path/filepath"
	"strings"
	"sync"
	"time"
)

type vfScenario struct {
	Name  string    `json:"name"`
	Cfg   vfPairCfg `json:"cfg"`
	Files int       `json:"files"`
	Size  int64     `json:"size"`
	Dir   bool      `json:"dir"`  // the sources are one directory (else Files top-level files)
	Pre   string    `json:"pre"`  // "" | "collide" (same names exist, no -y) | "prefix" (-y: a prefix of each file exists)
	Sess  vfSessOpts `json:"sess"`
	Kind  int        `json:"kind,omitempty"` // 0: contents rotate noise / text / escape-rich; otherwise every file has this content kind
}

type vfEvent struct {
	Dir    string `json:"dir"` // c2s | s2c
	K      int    `json:"k"`   // message index in that direction
	Before bool   `json:"before"`
}

type vfScenEnv struct {
	base, src, dest string
	paths           []string
	names           []string         // top-level names sent
	preSnap         map[string]vfEntry // snapshot of the destination before the transfer
	fileRel         []string         // relative paths (under the top-level name) of every regular file
}

func vfScenSetup(sc vfScenario) (*vfScenEnv, error) {
	base, err := os.MkdirTemp("", "vfscen")
	if err != nil {
		return nil, err
	}
	e := &vfScenEnv{base: base, src: filepath.Join(base, "src"), dest: filepath.Join(base, "dest")}
	os.MkdirAll(e.src, 0755)
	os.MkdirAll(e.dest, 0755)
	write := func(rel string, i int) {
		p := filepath.Join(e.src, rel)
		os.MkdirAll(filepath.Dir(p), 0755)
		kind := []int{vfKindNoise, vfKindText, vfKindEscapeRich}[i%3]
		if sc.Kind != 0 {
			kind = sc.Kind
		}
		vfWriteFile(p, kind, uint64(100+i), sc.Size+int64(i*37))
		e.fileRel = append(e.fileRel, rel)
	}
	if sc.Dir {
		for i := 0; i < sc.Files; i++ {
			// names that are string prefixes of one another: "tree/emptydir", a directory this transfer creates, and
			// "tree/emptydir.f1.bin", a file next to it
			rel := filepath.Join("tree", fmt.Sprintf("f%d.bin", i))
			if i%3 == 2 {
				rel = filepath.Join("tree", "sub", fmt.Sprintf("f%d.bin", i))
			} else if i%3 == 1 {
				rel = filepath.Join("tree", fmt.Sprintf("emptydir.f%d.bin", i))
			}
			write(rel, i)
		}
		os.MkdirAll(filepath.Join(e.src, "tree", "emptydir"), 0755)
		e.paths = []string{filepath.Join(e.src, "tree")}
		e.names = []string{"tree"}
	} else {
		for i := 0; i < sc.Files; i++ {
			rel := fmt.Sprintf("f%d.bin", i)
			if sc.Files > 1 && i <= 1 {
				// one created path is a string prefix of the next, also after both got a fresh ".0" name: "f1.0" and "f1.0.bin.0"
				rel = []string{"f1", "f1.0.bin"}[i]
			}
			write(rel, i)
			e.paths = append(e.paths, filepath.Join(e.src, rel))
			e.names = append(e.names, rel)
		}
	}
	// pre-existing destination content
	os.WriteFile(filepath.Join(e.dest, "bystander.txt"), []byte("bystander"), 0600)
	os.MkdirAll(filepath.Join(e.dest, "bystander.d", "inner"), 0755)
	os.WriteFile(filepath.Join(e.dest, "bystander.d", "inner", "x"), []byte("nested bystander"), 0644)
	switch sc.Pre {
	case "collide":
		for _, n := range e.names {
			if sc.Dir {
				os.MkdirAll(filepath.Join(e.dest, n, "old"), 0755)
				os.WriteFile(filepath.Join(e.dest, n, "old", "keep.txt"), []byte("pre-existing"), 0644)
			} else {
				os.WriteFile(filepath.Join(e.dest, n), []byte("pre-existing "+n), 0644)
			}
		}
	case "prefix":
		for _, rel := range e.fileRel {
			data, _ := os.ReadFile(filepath.Join(e.src, rel))
			p := filepath.Join(e.dest, rel)
			os.MkdirAll(filepath.Dir(p), 0755)
			os.WriteFile(p, data[:len(data)/2], 0644)
		}
	}
	old := time.Now().Add(-24 * time.Hour)
	filepath.Walk(e.dest, func(p string, info os.FileInfo, err error) error {
		if err == nil {
			os.Chtimes(p, old, old)
		}
		return nil
	})
	e.preSnap, err = vfSnapshot(e.dest)
	return e, err
}

func (e *vfScenEnv) cleanup() { os.RemoveAll(e.base) }

// identicalFiles counts source files that exist, complete and identical, under destTop (the name the top-level entry got).
func (e *vfScenEnv) identicalFiles(destName func(rel string) string) (same, present int) {
	for _, rel := range e.fileRel {
		want, _ := os.ReadFile(filepath.Join(e.src, rel))
		got, err := os.ReadFile(filepath.Join(e.dest, destName(rel)))
		if err != nil {
			continue
		}
		present++
		if vfEqualBytes(got, want) {
			same++
		}
	}
	return
}

// vfTracker follows the protocol on both links: completed files (MD5 acknowledged), message counts.
type vfTracker struct {
	mu        sync.Mutex
	sender    string // direction of the sending side
	md5Seen   bool
	completed int
	cfgSeen   bool
	actSeen   bool
	fired     bool
	firedAt   time.Time
	doneAtFire int
	extra     func(m vfMsg, before bool)
}

func (tk *vfTracker) observe(m vfMsg, before bool) {
	if before {
		return
	}
	tk.mu.Lock()
	defer tk.mu.Unlock()
	switch {
	case m.Typ == "ACT":
		tk.actSeen = true
	case m.Typ == "CFG":
		tk.cfgSeen = true
	case m.Dir == tk.sender && m.Typ == "MD5":
		tk.md5Seen = true
	case m.Dir != tk.sender && m.Typ == "SUCC" && tk.md5Seen:
		tk.md5Seen = false
		tk.completed++
	}
}

// vfArm installs the tracker and the event on a session; fire runs once, synchronously, when message ev.K of ev.Dir passes.
func vfArm(sess *vfSession, upload bool, ev vfEvent, fire func()) *vfTracker {
	tk := &vfTracker{sender: "s2c"}
	if upload {
		tk.sender = "c2s"
	}
	hook := func(dir string) func(m vfMsg, before bool) {
		return func(m vfMsg, before bool) {
			tk.observe(m, before)
			if fire != nil && m.Dir == ev.Dir && m.Idx == ev.K && before == ev.Before {
				tk.mu.Lock()
				already := tk.fired
				tk.fired = true
				tk.firedAt = time.Now()
				tk.doneAtFire = tk.completed
				tk.mu.Unlock()
				if !already {
					fire()
				}
			}
		}
	}
	sess.c2s.onMsg = hook("c2s")
	sess.s2c.onMsg = hook("s2c")
	if sess.tunC2S != nil {
		// a tunnel session: the protocol lines travel on the client's tapped tunnel connection and are numbered there; the
		// in-band links only carry the trigger (and whatever else the shell prints)
		sess.c2s.onMsg = nil
		sess.s2c.onMsg = nil
		sess.tunC2S.onMsg = hook("c2s")
		sess.tunS2C.onMsg = hook("s2c")
	}
	return tk
}

// vfScenarios is the fixed family used by the enumerations; more are drawn by rapid in the thorough tier.
func vfScenarios() []vfScenario {
	return []vfScenario{
		{Name: "download-3files-v4", Cfg: vfPairCfg{Upload: false, Protocol: 4, Bufsize: 4096, Timeout: 3}, Files: 3, Size: 60000, Pre: "collide", Sess: vfSessOpts{DestSpell: 1}},
		{Name: "upload-dir-v3-overwrite-resume", Cfg: vfPairCfg{Upload: true, Protocol: 3, Overwrite: true, Directory: true, Bufsize: 4096, Timeout: 3}, Files: 4, Size: 50000, Dir: true, Pre: "prefix"},
		{Name: "upload-archive-v4", Cfg: vfPairCfg{Upload: true, Protocol: 4, Directory: true, Bufsize: 4096, Timeout: 3}, Files: 5, Size: 30000, Dir: true, Pre: "collide", Sess: vfSessOpts{DestSpell: 1}},
		{Name: "download-dir-binary-overwrite", Cfg: vfPairCfg{Upload: false, Protocol: 4, Binary: true, Overwrite: true, Directory: true, Bufsize: 8192, Timeout: 3}, Files: 4, Size: 40000, Dir: true, Pre: "prefix", Sess: vfSessOpts{DestSpell: 2}},
		{Name: "upload-single-v2-binary", Cfg: vfPairCfg{Upload: true, Protocol: 2, Binary: true, Escape: true, Bufsize: 4096, Timeout: 3}, Files: 1, Size: 150000},
		{Name: "download-single-v1", Cfg: vfPairCfg{Upload: false, Protocol: 1, Timeout: 3}, Files: 2, Size: 20000, Pre: "collide"},
	}
}

// vfTunnelScenarios: members of the family run over the TCP tunnel (the client has a connector): the protocol lines then travel on
// the tunnel connection, where stop / fail lines must get through as well.
func vfTunnelScenarios() []vfScenario {
	var out []vfScenario
	for _, i := range []int{0, 1} {
		sc := vfScenarios()[i]
		sc.Name += "+tunnel"
		sc.Sess.Tunnel = true
		out = append(out, sc)
	}
	return out
}

// vfDryRun runs the scenario fault-free and returns the number of messages per direction.
// A dry run that fails is tried again twice (it is a precondition of the enumeration, not a verdict about the property: that
// fault-free transfers succeed is C01's subject, and on a machine that is busy beyond measure a 60 s bound can pass by itself).
func vfDryRun(sc vfScenario) (c2s, s2c int, msg string) {
	for try := 0; try < 3; try++ {
		if c2s, s2c, msg = vfDryRunOnce(sc); msg == "" {
			return
		}
		time.Sleep(2 * time.Second)
	}
	return
}

func vfDryRunOnce(sc vfScenario) (c2s, s2c int, msg string) {
	e, err := vfScenSetup(sc)
	if err != nil {
		return 0, 0, "setup: " + err.Error()
	}
	defer e.cleanup()
	sess := vfNewSession(sc.Sess)
	defer sess.close()
	run, err := vfStartTransfer(sess, sc.Cfg, e.paths, e.dest)
	if err != nil {
		return 0, 0, "cannot start: " + err.Error()
	}
	run.finish(60 * time.Second)
	if !run.serverSuccess() || !run.clientSuccess() {
		return 0, 0, "fault-free dry run of scenario " + sc.Name + " failed: " + run.describe()
	}
	vfLastDry.c2s, vfLastDry.s2c = sess.wire("c2s").messages(), sess.wire("s2c").messages()
	if sess.tunC2S != nil {
		if n := len(sess.tunC2S.messages()); n > 0 {
			return n, len(sess.tunS2C.messages()), ""
		}
		return 0, 0, "fault-free dry run of tunnel scenario " + sc.Name + " did not use the tunnel"
	}
	return len(sess.c2s.messages()), len(sess.s2c.messages()), ""
}

func vfPointHash(parts ...any) uint64 {
	h := uint64(1469598103934665603)
	for _, b := range []byte(fmt.Sprint(parts...)) {
		h ^= uint64(b)
		h *= 1099511628211
	}
	h ^= h >> 29
	h *= 0xbf58476d1ce4e5b9
	h ^= h >> 32
	return h
}

// vfLastDry: the messages of the most recent dry run (the enumerations use the types to find the points between two files).
var vfLastDry struct{ c2s, s2c []vfMsg }

// vfBetweenFiles says whether message k of a direction belongs to the hand-over from one file to the next: the MD5 line, the
// acknowledgement that follows it, or the NAME line of the next file.
func vfBetweenFiles(dir string, k int) bool {
	msgs, other := vfLastDry.c2s, vfLastDry.s2c
	if dir == "s2c" {
		msgs, other = vfLastDry.s2c, vfLastDry.c2s
	}
	if k < 0 || k >= len(msgs) {
		return false
	}
	m := msgs[k]
	if m.Typ == "MD5" || m.Typ == "NAME" {
		return true
	}
	if m.Typ == "SUCC" {
		// the acknowledgement of an MD5 line: the latest line of the other direction sent before it is that MD5
		var last *vfMsg
		for i := range other {
			if other[i].At.Before(m.At) {
				last = &other[i]
			}
		}
		return last != nil && last.Typ == "MD5"
	}
	return false
}

// vfInProbingPhase says whether message k of a direction is one of the first few data chunks (or their acknowledgements) of the
// first file: the phase in which the sender still probes the buffer size and waits for each acknowledgement.
func vfInProbingPhase(dir string, k int) bool {
	msgs := vfLastDry.c2s
	if dir == "s2c" {
		msgs = vfLastDry.s2c
	}
	if k < 0 || k >= len(msgs) {
		return false
	}
	// position of the first data chunk / first data acknowledgement in this direction
	first := -1
	for i, m := range msgs {
		if m.Typ == "DATA" || m.Typ == "BIN" || (m.Typ == "SUCC" && strings.Contains(m.Txt, "/")) {
			first = i
			break
		}
	}
	return first >= 0 && k >= first && k < first+8
}
