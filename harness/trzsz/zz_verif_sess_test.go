//go:build verif

// E3 session engine: the exported TrzszFilter in-process as the client, the real trz / tsz binaries built from the
// tree as child processes as the server, two vfLinks in between. The harness also plays the user and the shell.

package trzsz

import (
	"bytes"
	"fmt"
	"io"
	"net"
	"os"
	"os/exec"
	"path/filepath"
	"regexp"
	"strconv"
	"strings"
	"sync"
	"sync/atomic"
	"syscall"
	"time"
)

// vfFeedReader is an io.Reader that returns exactly the chunks it was fed, one per Read (a controlled segmentation).
type vfFeedReader struct {
	ch     chan []byte
	cur    []byte
	closed atomic.Bool
}

func newVfFeedReader() *vfFeedReader { return &vfFeedReader{ch: make(chan []byte, 4096)} }

func (r *vfFeedReader) feed(b []byte) {
	if len(b) > 0 && !r.closed.Load() {
		defer func() { _ = recover() }() // a late feed after close is dropped
		r.ch <- append([]byte(nil), b...)
	}
}

// close makes the reader report EOF once it is drained, so that the pump goroutines reading from it end.
func (r *vfFeedReader) close() {
	if r.closed.CompareAndSwap(false, true) {
		close(r.ch)
	}
}

func (r *vfFeedReader) Read(p []byte) (int, error) {
	if len(r.cur) == 0 {
		b, ok := <-r.ch
		if !ok {
			return 0, io.EOF
		}
		r.cur = b
	}
	n := copy(p, r.cur)
	r.cur = r.cur[n:]
	return n, nil
}

// vfRecorder records everything written to it, with a timestamp per write.
type vfRecorder struct {
	mu     sync.Mutex
	buf    bytes.Buffer
	writes int
	lastAt time.Time
}

func (w *vfRecorder) Write(p []byte) (int, error) {
	w.mu.Lock()
	w.buf.Write(p)
	w.writes++
	w.lastAt = time.Now()
	w.mu.Unlock()
	return len(p), nil
}

func (w *vfRecorder) Close() error { return nil }

func (w *vfRecorder) bytes() []byte {
	w.mu.Lock()
	defer w.mu.Unlock()
	return append([]byte(nil), w.buf.Bytes()...)
}

func (w *vfRecorder) len() int {
	w.mu.Lock()
	defer w.mu.Unlock()
	return w.buf.Len()
}

type vfSessOpts struct {
	Drag     bool  `json:"drag,omitempty"`
	Zmodem   bool  `json:"zmodem,omitempty"`
	OSC52    bool  `json:"osc52,omitempty"`
	DestSpell int  `json:"dest_spell,omitempty"` // how the destination is spelled where it is handed over: 0 clean, 1 trailing separator, 2 "/./" inside, 3 doubled separator
	TraceLog bool  `json:"tracelog,omitempty"`
	Tunnel   bool  `json:"tunnel,omitempty"`
	Relays   int   `json:"relays,omitempty"`
	Columns  int32 `json:"columns,omitempty"`
	RelayDialDelayMs int `json:"relay_dial_delay_ms,omitempty"` // the relays' own connector towards the server answers this late
	FirstWriteDelayMs int `json:"first_write_delay_ms,omitempty"` // latency of the in-band path for the first thing the client writes (its ACT line)
	SegC2S   vfSeg `json:"seg_c2s"`
	SegS2C   vfSeg `json:"seg_s2c"`
}

type vfSession struct {
	opts    vfSessOpts
	filter  *TrzszFilter
	relays  []*TrzszRelay
	userIn  *vfFeedReader
	termOut *vfRecorder
	shellIn *vfRecorder // what reaches "the shell" while no server child is attached
	c2s     *vfLink
	s2c     *vfLink
	tunC2S  *vfLink // tap of the client's tunnel connection (nil without a tunnel)
	tunConn net.Conn // the client's tunnel connection itself
	tunS2C  *vfLink
	srvOut  *vfFeedReader

	mu        sync.Mutex
	child     *exec.Cmd
	childIn   io.WriteCloser
	childDone chan struct{}
	childErr  bytes.Buffer
	childRaw  *bytes.Buffer // everything the current child printed on stdout
	bgChildren []*vfChildHandle // children that were detached (a transfer that went to the background): killed at close
	curTap    atomic.Pointer[vfTapConn] // the client's most recent tunnel connection: the one the tap (faults, throttle, message numbering) follows
	serverPortUnreachable atomic.Bool // see the client's connector
	tapMu     sync.RWMutex // orders a tunnel dial against writes that are inside the tap
	slowFirst *vfSlowFirstWriter // re-armed with slowFirst.done.Store(false): the next in-band write of the client is late again
	bgDelay   time.Duration // an older tunnel connection (a background transfer) sleeps this long per read / write
	exitCode  int
	dials     atomic.Int32
	c2sFail   func() bool // when set and true, the client's writes towards the server return an error
}

func vfNewSession(o vfSessOpts) *vfSession {
	s := &vfSession{opts: o, userIn: newVfFeedReader(), termOut: &vfRecorder{}, shellIn: &vfRecorder{}, srvOut: newVfFeedReader()}
	s.c2s = newVfLink("c2s", func(b []byte) {
		s.mu.Lock()
		w := s.childIn
		s.mu.Unlock()
		if w != nil {
			_, _ = w.Write(b)
		} else {
			s.shellIn.Write(b)
		}
	})
	s.c2s.seg = o.SegC2S
	s.s2c = newVfLink("s2c", func(b []byte) { s.srvOut.feed(b) })
	s.s2c.seg = o.SegS2C
	s.s2c.wholeTrigger = true
	if o.Columns == 0 {
		o.Columns = 100
	}
	var serverIn io.WriteCloser = &vfFailableWriter{s: s}
	var serverOut io.Reader = s.srvOut
	// relay hops sit between the filter and the wire: filter <-> relay_n ... relay_1 <-> wire <-> server
	for i := 0; i < o.Relays; i++ {
		toRelay := newVfFeedReader()   // what the downstream side sends towards this relay's client input
		fromRelay := newVfFeedReader() // what this relay sends towards its client
		relay := NewTrzszRelay(toRelay, &vfFeedWriter{fromRelay}, serverIn, serverOut, TrzszOptions{})
		s.relays = append(s.relays, relay)
		serverIn = &vfFeedWriter{toRelay}
		serverOut = fromRelay
	}
	if o.FirstWriteDelayMs > 0 {
		s.slowFirst = &vfSlowFirstWriter{inner: serverIn, delay: time.Duration(o.FirstWriteDelayMs) * time.Millisecond}
		serverIn = s.slowFirst
	}
	s.filter = NewTrzszFilter(s.userIn, s.termOut, serverIn, serverOut, TrzszOptions{TerminalColumns: o.Columns,
		DetectDragFile: o.Drag, DetectTraceLog: o.TraceLog, EnableZmodem: o.Zmodem, EnableOSC52: o.OSC52})
	if o.Tunnel {
		connector := func(port int) net.Conn {
			s.dials.Add(1)
			conn, err := net.DialTimeout("tcp", fmt.Sprintf("127.0.0.1:%d", port), time.Second)
			if err != nil {
				return nil
			}
			return conn
		}
		// the client's own tunnel connection is tapped so that its protocol lines stay visible to the harness
		s.tunC2S = newVfLink("c2s", nil)
		s.tunS2C = newVfLink("s2c", func([]byte) {})
		s.filter.SetTunnelConnector(func(port int) net.Conn {
			if s.serverPortUnreachable.Load() && len(s.relays) > 0 {
				// the client sits behind the relay(s): it can reach the ports a relay announces, not the server's own port (a trigger
				// that passed a busy relay unchanged carries the server's port)
				if mm := vfTriggerPortRe.FindAllSubmatch(s.s2c.transcript(), -1); len(mm) > 0 {
					if p, _ := strconv.Atoi(string(mm[len(mm)-1][1])); p == port {
						return nil
					}
				}
			}
			conn := connector(port)
			if conn == nil {
				return nil
			}
			tc := &vfTapConn{Conn: conn, s: s}
			s.mu.Lock()
			s.tunConn = conn
			s.mu.Unlock()
			s.tapMu.Lock() // a write of the previous connection that is inside the tap finishes first
			s.curTap.Store(tc)
			s.tunC2S.out = func(b []byte) { _, _ = conn.Write(b) }
			s.tapMu.Unlock()
			return tc
		})
		relayConnector := connector
		if o.RelayDialDelayMs > 0 {
			relayConnector = func(port int) net.Conn {
				time.Sleep(time.Duration(o.RelayDialDelayMs) * time.Millisecond)
				return connector(port)
			}
		}
		for _, r := range s.relays {
			r.SetTunnelConnector(relayConnector)
		}
	}
	return s
}

// vfTapConn taps the client's tunnel connection (after the greeting exchange both directions carry protocol lines).
type vfTapConn struct {
	net.Conn
	s      *vfSession
	hello  atomic.Bool // the first write is the greeting, not a protocol line
	rhello atomic.Bool
}

func (c *vfTapConn) Write(p []byte) (int, error) {
	if c.hello.CompareAndSwap(false, true) {
		return c.Conn.Write(p)
	}
	c.s.tapMu.RLock()
	if c.s.curTap.Load() == c {
		c.s.tunC2S.feed(p)
		c.s.tapMu.RUnlock()
		return len(p), nil
	}
	c.s.tapMu.RUnlock()
	// an older connection (a transfer that went to the background) while a newer one is being followed: straight through
	if d := c.s.bgDelay; d > 0 {
		time.Sleep(d)
	}
	return c.Conn.Write(p)
}

func (c *vfTapConn) Read(p []byte) (int, error) {
	for {
		n, err := c.Conn.Read(p)
		if n > 0 {
			if c.rhello.CompareAndSwap(false, true) {
				return n, err
			}
			if c.s.curTap.Load() != c {
				if d := c.s.bgDelay; d > 0 {
					time.Sleep(d)
				}
				return n, err
			}
			c.s.tunS2C.feed(p[:n])
			c.s.tunS2C.mu.Lock()
			silent := c.s.tunS2C.silent
			c.s.tunS2C.mu.Unlock()
			if silent && err == nil {
				continue // the server-to-client direction of the tunnel has gone silent: the bytes are dropped
			}
			if silent {
				n = 0
			}
		}
		return n, err
	}
}

// wire returns the link that carries the protocol lines of one direction: the tapped tunnel connection once the client uses a
// tunnel, the in-band link otherwise.
func (s *vfSession) wire(dir string) *vfLink {
	if s.tunC2S != nil && len(s.tunC2S.messages()) > 0 {
		if dir == "c2s" {
			return s.tunC2S
		}
		return s.tunS2C
	}
	if dir == "c2s" {
		return s.c2s
	}
	return s.s2c
}

// breakTunnel closes the client's tunnel connection under its feet (a TCP connection that breaks).
func (s *vfSession) breakTunnel() {
	s.mu.Lock()
	c := s.tunConn
	s.mu.Unlock()
	if c != nil {
		c.Close()
	}
}

// vfFailableWriter is the client's connection towards the server; the harness can make it return errors.
type vfFailableWriter struct{ s *vfSession }

func (w *vfFailableWriter) Write(p []byte) (int, error) {
	if f := w.s.c2sFail; f != nil && f() {
		return 0, fmt.Errorf("injected connection write error")
	}
	return w.s.c2s.Write(p)
}

func (w *vfFailableWriter) Close() error { return nil }

// vfSlowFirstWriter delays the first write (a slow in-band path at the moment the client answers the trigger).
type vfSlowFirstWriter struct {
	inner io.WriteCloser
	delay time.Duration
	done  atomic.Bool
}

func (w *vfSlowFirstWriter) Write(p []byte) (int, error) {
	if w.done.CompareAndSwap(false, true) {
		time.Sleep(w.delay)
	}
	return w.inner.Write(p)
}

func (w *vfSlowFirstWriter) Close() error { return w.inner.Close() }

type vfFeedWriter struct{ r *vfFeedReader }

func (w *vfFeedWriter) Write(p []byte) (int, error) { w.r.feed(p); return len(p), nil }
func (w *vfFeedWriter) Close() error                { return nil }

// vfBinWrap is an optional command prefix for server children (e.g. prlimit).
var vfBinWrap []string

func vfBinPath(name string) string {
	return filepath.Join(vfEnv("VERIF_BIN", "."), name)
}

// startServer launches the real trz / tsz binary with its stdin / stdout on the wire.
func (s *vfSession) startServer(name string, args []string, dir string, extraEnv ...string) error {
	argv := append(append([]string(nil), vfBinWrap...), vfBinPath(name))
	argv = append(argv, args...)
	cmd := exec.Command(argv[0], argv[1:]...)
	cmd.Dir = dir
	env := []string{}
	for _, e := range os.Environ() {
		if strings.HasPrefix(e, "TMUX") || strings.HasPrefix(e, "VERIF_CHILD") {
			continue
		}
		env = append(env, e)
	}
	cmd.Env = append(env, extraEnv...)
	cmd.SysProcAttr = &syscall.SysProcAttr{Setpgid: true}
	stdin, err := cmd.StdinPipe()
	if err != nil {
		return err
	}
	pr, pw, err := os.Pipe()
	if err != nil {
		return err
	}
	cmd.Stdout = pw
	cmd.Stderr = &s.childErr
	if err := cmd.Start(); err != nil {
		pr.Close()
		pw.Close()
		return err
	}
	pw.Close() // only the child holds the write end now
	done := make(chan struct{})
	s.mu.Lock()
	s.child = cmd
	s.childIn = stdin
	s.childDone = done
	raw := &bytes.Buffer{}
	s.childRaw = raw
	s.mu.Unlock()
	go func() {
		buf := make([]byte, 32*1024)
		for {
			n, err := pr.Read(buf)
			if n > 0 {
				s.mu.Lock()
				raw.Write(buf[:n])
				s.mu.Unlock()
				s.s2c.feed(buf[:n])
			}
			if err != nil {
				break
			}
		}
		pr.Close()
		err := cmd.Wait()
		code := 0
		if err != nil {
			code = -1
			if ee, ok := err.(*exec.ExitError); ok {
				code = ee.ExitCode()
			}
		}
		s.mu.Lock()
		if s.child == cmd { // a detached (background) child must not touch what belongs to its successor
			s.exitCode = code
			s.childIn = nil
		}
		s.mu.Unlock()
		close(done)
	}()
	return nil
}

// vfChildHandle is a server child that was detached from the session: it keeps running (a transfer in the background) while the
// session starts the next one.
type vfChildHandle struct {
	s    *vfSession
	cmd  *exec.Cmd
	done chan struct{}
	raw  *bytes.Buffer
}

// detachServer lets the current child run on by itself; its output still reaches the terminal path, its result is read from the handle.
func (s *vfSession) detachServer() *vfChildHandle {
	s.mu.Lock()
	defer s.mu.Unlock()
	if s.child == nil {
		return nil
	}
	h := &vfChildHandle{s: s, cmd: s.child, done: s.childDone, raw: s.childRaw}
	s.bgChildren = append(s.bgChildren, h)
	s.child, s.childDone, s.childIn = nil, nil, nil
	return h
}

func (h *vfChildHandle) wait(limit time.Duration) bool {
	select {
	case <-h.done:
		return true
	case <-time.After(limit):
		return false
	}
}

func (h *vfChildHandle) output() []byte {
	h.s.mu.Lock()
	defer h.s.mu.Unlock()
	return append([]byte(nil), h.raw.Bytes()...)
}

// waitServer waits until the child has exited and all its output has been read (read to EOF before judging).
func (s *vfSession) waitServer(limit time.Duration) bool {
	s.mu.Lock()
	done := s.childDone
	s.mu.Unlock()
	if done == nil {
		return true
	}
	select {
	case <-done:
		return true
	case <-time.After(limit):
		return false
	}
}

// waitClientIdle waits until the filter has left transfer mode.
func (s *vfSession) waitClientIdle(limit time.Duration) bool {
	deadline := time.Now().Add(limit)
	for s.filter.IsTransferringFiles() {
		if time.Now().After(deadline) {
			return false
		}
		time.Sleep(5 * time.Millisecond)
	}
	return true
}

func (s *vfSession) killServer() {
	s.mu.Lock()
	cmd := s.child
	s.mu.Unlock()
	if cmd != nil && cmd.Process != nil {
		_ = syscall.Kill(-cmd.Process.Pid, syscall.SIGKILL)
		_ = cmd.Process.Kill()
	}
}

func (s *vfSession) signalServer(sig syscall.Signal) {
	s.mu.Lock()
	cmd := s.child
	s.mu.Unlock()
	if cmd != nil && cmd.Process != nil {
		_ = cmd.Process.Signal(sig)
	}
}

func (s *vfSession) serverAlive() bool {
	s.mu.Lock()
	done := s.childDone
	s.mu.Unlock()
	if done == nil {
		return false
	}
	select {
	case <-done:
		return false
	default:
		return true
	}
}

func (s *vfSession) serverRaw() []byte {
	s.mu.Lock()
	defer s.mu.Unlock()
	if s.childRaw == nil {
		return nil
	}
	return append([]byte(nil), s.childRaw.Bytes()...)
}

func (s *vfSession) serverStderr() string {
	s.mu.Lock()
	defer s.mu.Unlock()
	return s.childErr.String()
}

// serverMessage returns what the server finally told the user: the text after the terminal reset sequence.
func (s *vfSession) serverMessage() string {
	raw := s.serverRaw()
	// background (-f) mode: the terminal was already handed back ("Switch to transfer in background."), the final
	// message comes later as ESC 7 CR LF <msg> CR LF ESC 8
	if j := bytes.LastIndex(raw, []byte("\x1b7\r\n")); j >= 0 && bytes.Contains(raw[:j], []byte("Switch to transfer in background.")) {
		msg := raw[j+4:]
		if k := bytes.LastIndex(msg, []byte("\r\n\x1b8")); k >= 0 {
			return string(msg[:k])
		}
	}
	i := bytes.LastIndex(raw, []byte("\x1b8\x1b[0J"))
	if i < 0 {
		return ""
	}
	msg := raw[i+6:]
	if j := bytes.Index(msg, []byte("\r\n\x1b[?25h")); j >= 0 {
		msg = msg[:j]
	}
	return string(msg)
}

// clientVerdict inspects what the client wrote: "exit" (it reported success), "fail" (it reported an error), "" (nothing).
func (s *vfSession) clientVerdict() (string, string) { return s.clientVerdictSince(nil) }

// clientVerdictSince looks only at the protocol lines behind the given per-link message counts (see msgCounts): in a sequence of
// transfers an earlier transfer's fail line - possibly on the other link - must not be taken for this transfer's verdict.
func (s *vfSession) clientVerdictSince(base map[*vfLink]int) (string, string) {
	verdict, text := "", ""
	for _, link := range []*vfLink{s.c2s, s.tunC2S} {
		if link == nil {
			continue
		}
		tr := link.transcript()
		for i, m := range link.messages() {
			if i < base[link] {
				continue
			}
			switch m.Typ {
			case "EXIT":
				verdict = "exit"
			case "fail", "FAIL":
				verdict = "fail"
			default:
				continue
			}
			if b, err := vfDecodeLine(tr[m.Off : m.Off+int64(m.Len)]); err == nil {
				text = string(b)
			}
		}
	}
	return verdict, text
}

func (s *vfSession) msgCounts() map[*vfLink]int {
	out := map[*vfLink]int{}
	for _, link := range []*vfLink{s.c2s, s.tunC2S} {
		if link != nil {
			out[link] = len(link.messages())
		}
	}
	return out
}

func (s *vfSession) typeInput(b []byte) { s.userIn.feed(b) }

// shellOutput makes "the remote shell" print something (only meaningful while no server child is attached).
func (s *vfSession) shellOutput(b []byte) { s.s2c.feedRaw(b) }

func (s *vfSession) close() {
	s.killServer()
	s.waitServer(5 * time.Second)
	s.mu.Lock()
	bg := s.bgChildren
	s.bgChildren = nil
	s.mu.Unlock()
	for _, h := range bg {
		if h.cmd.Process != nil {
			_ = syscall.Kill(-h.cmd.Process.Pid, syscall.SIGKILL)
			_ = h.cmd.Process.Kill()
		}
		h.wait(5 * time.Second)
	}
}

// vfTransferGoroutines returns the stacks of goroutines that are still inside transfer code.
func vfTransferGoroutines() []string {
	buf := make([]byte, 4<<20)
	n := runtimeStack(buf)
	var out []string
	for _, g := range strings.Split(string(buf[:n]), "\n\n") {
		// workers of a transfer: its own stages, and the goroutines the zstd streams it opened run on (those have no frame of the
		// package itself: they end when the stream is closed)
		if strings.Contains(g, "trzsz.(*trzszTransfer)") || strings.Contains(g, "trzsz.(*sendDataWriter)") || strings.Contains(g, "trzsz.(*recvDataReader)") ||
			strings.Contains(g, "klauspost/compress/zstd.(*Decoder)") || strings.Contains(g, "klauspost/compress/zstd.(*Encoder)") {
			out = append(out, g)
		}
	}
	return out
}

// vfSpellDest returns the same directory spelled the way a user, a shell completion or a configuration file may spell it.
func vfSpellDest(dest string, spell int) string {
	sep := string(os.PathSeparator)
	switch spell {
	case 1:
		return dest + sep
	case 2:
		return filepath.Dir(dest) + sep + "." + sep + filepath.Base(dest)
	case 3:
		return filepath.Dir(dest) + sep + sep + filepath.Base(dest)
	}
	return dest
}

var vfTriggerPortRe = regexp.MustCompile(`::TRZSZ:TRANSFER:[SRD]:\d+\.\d+\.\d+:\d+:(\d+)`)
