//go:build verif

// C02 — no silent corruption: a damaged stream is never reported as saved (pair engine with byte faults),
// and the wire-level half of C04 (protected bytes never appear in what an uploading client writes).

package trzsz

import (
	"bytes"
	"compress/zlib"
	"encoding/base64"
	"encoding/json"
	"fmt"
	"io"
	"os"
	"path/filepath"
	"regexp"
	"strconv"
	"sync"
	"sync/atomic"
	"testing"
	"time"

	"pgregory.net/rapid"
)

type vfFaultSpec struct {
	Dir   string `json:"dir"`  // c2s | s2c
	Kind  string `json:"kind"` // flip delete dup insert truncate
	Mode  string `json:"mode"` // "frac": Sel/65536 of the transcript; "msg": message Sel (mod count), byte by BSel; "typ": like msg among the messages of type Typ; "abs": Sel is the offset
	Typ   string `json:"typ,omitempty"`
	Sel   int    `json:"sel"`
	BSel  int    `json:"bsel"` // msg mode: 0,1 first bytes; -1,-2 last bytes; otherwise position modulo length
	N     int    `json:"n,omitempty"`
	Bit   int    `json:"bit,omitempty"`
	Data  []byte `json:"data,omitempty"`
	Late  bool   `json:"late,omitempty"` // select among the messages after the handshake line only
}

type vfC02Case struct {
	Cfg    vfPairCfg     `json:"cfg"`
	Files  []vfFile      `json:"files"` // top-level regular files
	Faults []vfFaultSpec `json:"faults"`
	Prev   int           `json:"prev"` // 0: empty destination; n>0: the destination already holds the first 1/n of every file (resume hash exchange with -y)
	Lies   []vfLie       `json:"lies,omitempty"`
	JLies  []vfJLie      `json:"jlies,omitempty"`
}

// vfJLie changes one member of the first coded JSON object of a message type in one direction and re-codes the line (a damage of
// several bytes that keeps the base64 / zlib coding consistent, which single-byte faults cannot do): the hash lines and hash
// acknowledgements of a resumed transfer.
type vfJLie struct {
	Back  bool   `json:"back"`  // true: receiver -> sender (SUCC acks), false: sender -> receiver (HASH lines)
	Typ   string `json:"typ"`   // HASH | SUCC
	Field string `json:"field"` // step | match | over | hash
	Delta int64  `json:"delta"` // step: added; others: ignored
}

func vfInstallJLie(l vfJLie, fwd, back *vfLink, applied *int32) {
	link := fwd
	if l.Back {
		link = back
	}
	done := false
	link.rewrites = append(link.rewrites, func(mm vfMsg, line []byte) []byte {
		if done || mm.Typ != l.Typ {
			return nil
		}
		js, err := vfDecodeLine(line)
		if err != nil {
			return nil
		}
		var m map[string]any
		if json.Unmarshal(js, &m) != nil {
			return nil
		}
		// the first object of that type that has the member (name acknowledgements are objects too)
		switch l.Field {
		case "step":
			v, ok := m["step"].(float64)
			if !ok {
				return nil
			}
			m["step"] = int64(v) + l.Delta
		case "match", "over":
			v, ok := m[l.Field].(bool)
			if !ok {
				return nil
			}
			m[l.Field] = !v
		case "hash":
			v, ok := m["hash"].(string)
			if !ok || len(v) == 0 {
				return nil
			}
			c := byte('0')
			if v[0] == '0' {
				c = '1'
			}
			m["hash"] = string(c) + v[1:]
		default:
			return nil
		}
		done = true
		atomic.AddInt32(applied, 1)
		out, _ := json.Marshal(m)
		nl := "\n"
		if bytes.HasSuffix(line, []byte("!\n")) {
			nl = "!\n"
		}
		return vfEncodeLine(l.Typ, out, nl)
	})
}

// vfLie is a pair of cooperating faults, one per direction: the number in the Occ-th message of type Typ is changed on its way to
// the receiver, and the receiver's echo of the changed number is changed back on its way to the sender - damage that the echo
// check cannot see, so that whatever else guards the file (step accounting, the digest) has to.
type vfLie struct {
	Typ   string `json:"typ"` // NUM SIZE
	Occ   int    `json:"occ"`
	Delta int64  `json:"delta"`
	Frac  int64  `json:"frac16,omitempty"` // >0: the number becomes n*Frac/16 instead of n+Delta
	Echo  bool   `json:"echo"` // false: only the forward half (the echo check sees it)
}

var vfNumLineRe = regexp.MustCompile(`^(#[A-Za-z]+:)(-?\d+)([^0-9].*|)$`)

func vfInstallLie(lie vfLie, fwd, back *vfLink, applied *int32) {
	var mu sync.Mutex
	occ := 0
	armed := false
	var told, real string
	fwd.rewrites = append(fwd.rewrites, func(m vfMsg, line []byte) []byte {
		if m.Typ != lie.Typ {
			return nil
		}
		mu.Lock()
		defer mu.Unlock()
		occ++
		if occ-1 != lie.Occ {
			return nil
		}
		mm := vfNumLineRe.FindSubmatch(bytes.TrimRight(line, "\r\n"))
		if mm == nil {
			return nil
		}
		n, err := strconv.ParseInt(string(mm[2]), 10, 64)
		if err != nil {
			return nil
		}
		n2 := n + lie.Delta
		if lie.Frac > 0 {
			if n2 = n * lie.Frac / 16; n2 == n {
				n2 = n - 1
			}
		}
		if n2 < 0 {
			n2 = 0
		}
		if n2 == n {
			return nil
		}
		real, told, armed = string(mm[2]), strconv.FormatInt(n2, 10), lie.Echo
		atomic.AddInt32(applied, 1)
		return bytes.Replace(line, mm[2], []byte(told), 1)
	})
	back.rewrites = append(back.rewrites, func(m vfMsg, line []byte) []byte {
		mu.Lock()
		defer mu.Unlock()
		if !armed || m.Typ != "SUCC" {
			return nil
		}
		mm := vfNumLineRe.FindSubmatch(bytes.TrimRight(line, "\r\n"))
		if mm == nil || string(mm[2]) != told {
			return nil
		}
		armed = false
		return bytes.Replace(line, mm[2], []byte(real), 1)
	})
}

type vfC02Res struct {
	applied  int
	phases   []string
	outcome  string
	bothFail bool
}

func vfResolveFault(f vfFaultSpec, link *vfLink) (vfFault, string) {
	msgs := link.messages()
	total := int64(0)
	if len(msgs) > 0 {
		last := msgs[len(msgs)-1]
		total = last.Off + int64(last.Len)
	}
	if f.Late && len(msgs) > 1 {
		hs := msgs[0].Off + int64(msgs[0].Len)
		for i := range msgs[1:] {
			msgs[i+1].Off -= hs
		}
		ft, ph := vfResolveIn(f, msgs[1:], total-hs)
		ft.Off += hs
		return ft, ph
	}
	return vfResolveIn(f, msgs, total)
}

func vfResolveIn(f vfFaultSpec, msgs []vfMsg, total int64) (vfFault, string) {
	var off int64
	phase := "?"
	if f.Mode == "typ" {
		var cand []vfMsg
		for _, m := range msgs {
			if m.Typ == f.Typ {
				cand = append(cand, m)
			}
		}
		if len(cand) > 0 {
			msgs = cand
		}
	}
	switch f.Mode {
	case "abs":
		off = int64(f.Sel)
	case "msg", "typ":
		if len(msgs) == 0 {
			return vfFault{}, ""
		}
		m := msgs[((f.Sel%len(msgs))+len(msgs))%len(msgs)]
		b := f.BSel
		if b < 0 {
			b = m.Len + b
		}
		if m.Len > 0 {
			b = ((b % m.Len) + m.Len) % m.Len
		}
		off = m.Off + int64(b)
	default:
		off = total * int64(f.Sel&0xffff) / 65536
	}
	for _, m := range msgs {
		if off >= m.Off && off < m.Off+int64(m.Len) {
			phase = m.Typ
			if f.Kind == "dupline" || f.Kind == "delline" {
				// the whole message is duplicated / dropped (a retransmitting or lossy transport works on units, not on bytes)
				kind := vfFaultDup
				if f.Kind == "delline" {
					kind = vfFaultDelete
				}
				return vfFault{Kind: kind, Off: m.Off, N: m.Len}, phase
			}
		}
	}
	if f.Kind == "dupline" || f.Kind == "delline" {
		return vfFault{}, ""
	}
	// the handshake lines are part of the connection of the transfer in the pair engine (there is no trigger line here)
	return vfFault{Kind: f.Kind, Off: off, N: f.N, Bit: f.Bit, Data: f.Data}, phase
}

func vfC02Setup(cs vfC02Case, base string) (paths []string, dest string, err error) {
	src := filepath.Join(base, "src")
	dest = filepath.Join(base, "dest")
	os.MkdirAll(src, 0755)
	os.MkdirAll(dest, 0755)
	for _, f := range cs.Files {
		p := filepath.Join(src, f.Rel[0])
		if err := vfWriteFile(p, f.Kind, f.Seed, f.Size); err != nil {
			return nil, "", err
		}
		paths = append(paths, p)
		if cs.Prev > 0 && f.Size > 0 {
			os.WriteFile(filepath.Join(dest, f.Rel[0]), vfContent(f.Kind, f.Seed, f.Size)[:f.Size/int64(cs.Prev)], 0644)
		}
	}
	return paths, dest, nil
}

func vfC02Run(cs vfC02Case, res *vfC02Res) string {
	base, err := os.MkdirTemp("", "vfc02")
	if err != nil {
		return "mkdtemp: " + err.Error()
	}
	defer os.RemoveAll(base)
	// dry run: learn the transcripts
	dry := filepath.Join(base, "dry")
	paths, dest, err := vfC02Setup(cs, dry)
	if err != nil {
		return ""
	}
	vfCurCase("TestVF_C02", cs)
	r0 := vfNewPair(cs.Cfg)
	r0.propagate = true
	r0.run(paths, dest, 60*time.Second)
	if r0.hung || r0.clientErr != nil || r0.serverErr != nil {
		return "fault-free dry run failed: " + r0.describe()
	}
	// faulted run
	paths, dest, err = vfC02Setup(cs, filepath.Join(base, "run"))
	if err != nil {
		return ""
	}
	r := vfNewPair(cs.Cfg)
	r.propagate = true
	for _, fs := range cs.Faults {
		link, dlink := r.c2s, r0.c2s
		if fs.Dir == "s2c" {
			link, dlink = r.s2c, r0.s2c
		}
		f, phase := vfResolveFault(fs, dlink)
		if f.Kind == "" {
			continue
		}
		link.faults = append(link.faults, f)
		res.phases = append(res.phases, fs.Dir+":"+phase+":"+fs.Kind)
	}
	var lied int32
	for _, lie := range cs.Lies {
		fwd, back := r.s2c, r.c2s
		if cs.Cfg.Upload {
			fwd, back = r.c2s, r.s2c
		}
		vfInstallLie(lie, fwd, back, &lied)
		res.phases = append(res.phases, fmt.Sprintf("lie:%s:echo%v", lie.Typ, lie.Echo))
	}
	for _, l := range cs.JLies {
		fwd, back := r.s2c, r.c2s
		if cs.Cfg.Upload {
			fwd, back = r.c2s, r.s2c
		}
		vfInstallJLie(l, fwd, back, &lied)
		res.phases = append(res.phases, fmt.Sprintf("jlie:%s.%s", l.Typ, l.Field))
	}
	r.run(paths, dest, 45*time.Second)
	res.applied = r.c2s.appliedFaults() + r.s2c.appliedFaults() + int(atomic.LoadInt32(&lied))
	if r.hung {
		res.outcome = "hang"
		return "" // hangs are C11's business; counted as inconclusive by the caller
	}
	clientOK, serverOK := r.clientErr == nil, r.serverErr == nil
	switch {
	case clientOK && serverOK:
		res.outcome = "both_success"
	case clientOK || serverOK:
		res.outcome = "one_side_success"
	default:
		res.outcome = "both_error"
	}
	// whoever reports success reports it for the files it names: each of them must be byte-identical to its source
	check := func(who string, names []string) string {
		if len(names) > len(cs.Files) {
			return fmt.Sprintf("%s reported success for %d files %q, only %d were sent (faults %v; %s)", who, len(names), names, len(cs.Files), res.phases, r.describe())
		}
		for i, name := range names {
			f := cs.Files[i]
			want := vfContent(f.Kind, f.Seed, f.Size)
			got, err := os.ReadFile(filepath.Join(dest, name))
			if err != nil {
				return fmt.Sprintf("%s reported success for %q but it does not exist at the destination: %v (faults %v; %s)", who, name, err, res.phases, r.describe())
			}
			if !bytes.Equal(got, want) {
				return fmt.Sprintf("%s reported success for %q but it differs from the source %q (%d vs %d bytes, first difference at %d) (faults %v; %s)",
					who, name, f.Rel[0], len(got), len(want), vfLCP(got, want), res.phases, r.describe())
			}
		}
		return ""
	}
	if clientOK {
		if m := check("the client", r.clientNames); m != "" {
			return m
		}
	}
	if serverOK {
		if m := check("the server", r.serverNames); m != "" {
			return m
		}
		// the message the server shows comes from the client's EXIT line
		if _, shown, ok := vfParseSaved(r.serverMsg); ok {
			if m := check("the server's final message", shown); m != "" {
				return m
			}
		}
	}
	return ""
}

func vfGenC02(rt *rapid.T) vfC02Case {
	var cs vfC02Case
	n := rapid.IntRange(1, 3).Draw(rt, "nfiles")
	var total int64
	for i := 0; i < n; i++ {
		f := vfGenFile(rt, []string{fmt.Sprintf("f%d.bin", i)}, "f", false)
		if f.Size > 40960 {
			f.Size = 40960
		}
		total += f.Size
		cs.Files = append(cs.Files, f)
	}
	blockMultiple := rapid.IntRange(0, 7).Draw(rt, "blockmultiple") == 0
	if blockMultiple {
		// file data that is an exact multiple of the 32 KiB blocks the stages work in, sent uncompressed, damaged inside the data
		cs.Files[0].Size = rapid.SampledFrom([]int64{32768, 32768, 65536, 98304}).Draw(rt, "blocksize")
		cs.Files[0].Kind = vfKindNoise
		total = 0
		for _, f := range cs.Files {
			total += f.Size
		}
	}
	cs.Cfg = vfGenPairCfg(rt, total)
	cs.Cfg.Timeout = 1
	cs.Cfg.Overwrite = rapid.IntRange(0, 2).Draw(rt, "overwrite") != 1
	cs.Cfg.Progress = false
	cs.Cfg.TmuxJunk = false
	if cs.Cfg.Overwrite && rapid.IntRange(0, 2).Draw(rt, "hasprev") != 1 {
		cs.Prev = rapid.IntRange(1, 3).Draw(rt, "prev")
		if rapid.Bool().Draw(rt, "resumeproto") && cs.Cfg.Protocol < 3 {
			cs.Cfg.Protocol = rapid.SampledFrom([]int{3, 4}).Draw(rt, "rproto")
		}
	}
	nf := rapid.IntRange(1, 3).Draw(rt, "nfaults")
	if rapid.IntRange(0, 3).Draw(rt, "lying") == 0 {
		// cooperating faults: the receiver is told a different count or size and its echo is repaired on the way back
		nf = rapid.IntRange(0, 1).Draw(rt, "nfaults_with_lie")
		nl := rapid.IntRange(1, 2).Draw(rt, "nlies")
		for i := 0; i < nl; i++ {
			cs.Lies = append(cs.Lies, vfLie{
				Typ:   rapid.SampledFrom([]string{"SIZE", "SIZE", "SIZE", "NUM"}).Draw(rt, "lietyp"),
				Occ:   rapid.IntRange(0, n-1).Draw(rt, "lieocc"),
				Delta: rapid.SampledFrom([]int64{-1, 1, -2, -10, -100, -500, -1000, -1024, -1025, -4096, -10000, 100, 1024, 5000, -1 << 40, 1 << 40}).Draw(rt, "liedelta"),
				Echo:  rapid.IntRange(0, 4).Draw(rt, "lieecho") != 0,
				Frac:  rapid.SampledFrom([]int64{0, 0, 15, 15, 14, 12, 8, 4, 17, 20, 32}).Draw(rt, "liefrac"),
			})
		}
		if rapid.IntRange(0, 2).Draw(rt, "lie_oldproto") == 1 {
			// the protocols without a per-chunk step (0/1) and without resume (2) have the fewest cross-checks for a count or size
			cs.Cfg.Protocol = rapid.SampledFrom([]int{0, 1, 2}).Draw(rt, "lie_proto")
			cs.Prev = 0
		}
	}
	if cs.Prev > 0 && cs.Cfg.Protocol >= 3 && rapid.IntRange(0, 2).Draw(rt, "jlying") == 1 {
		// a resumed transfer: the hash exchange carries steps and verdicts that decide where the rest of the file goes
		nf = rapid.IntRange(0, 1).Draw(rt, "nfaults_with_jlie")
		l := vfJLie{Back: rapid.IntRange(0, 2).Draw(rt, "jback") != 0}
		if l.Back {
			l.Typ = "SUCC"
			// the step is a number the sender checks against what it knows; the boolean verdict next to it has nothing it could be
			// checked against - forging it is forging the receiver's answer, not damaging it - and is left alone
			l.Field = "step"
		} else {
			l.Typ = "HASH"
			l.Field = rapid.SampledFrom([]string{"step", "over", "hash"}).Draw(rt, "jfield_fwd")
		}
		l.Delta = rapid.SampledFrom([]int64{1, 1, 2, 100, 1000, 4096, -1, -100, 1 << 20, 1 << 40}).Draw(rt, "jdelta")
		cs.JLies = append(cs.JLies, l)
	}
	if cs.Prev > 0 && cs.Cfg.Protocol >= 3 && len(cs.JLies) == 0 && rapid.IntRange(0, 1).Draw(rt, "hashack_fault") == 1 {
		// a resumed transfer with damage aimed at the hash exchange itself: the receiver's answers to the prefix hashes are the
		// acknowledgements number 2, 3, ... of its direction (behind those for NUM and NAME), the hashes the lines in front of them
		back := map[bool]string{true: "s2c", false: "c2s"}[cs.Cfg.Upload]
		fwd := map[bool]string{true: "c2s", false: "s2c"}[cs.Cfg.Upload]
		f := vfFaultSpec{Mode: "typ", Late: true, Bit: rapid.IntRange(0, 7).Draw(rt, "ha_bit"),
			Kind: rapid.SampledFrom([]string{vfFaultFlip, vfFaultFlip, vfFaultDelete, vfFaultDup, vfFaultInsert}).Draw(rt, "ha_kind"),
			BSel: rapid.SampledFrom([]int{6, 7, 8, 9, 12, 20, 33, -2, -3, -5}).Draw(rt, "ha_bsel")}
		if rapid.IntRange(0, 2).Draw(rt, "ha_side") != 0 {
			f.Dir, f.Typ, f.Sel = back, "SUCC", rapid.SampledFrom([]int{2, 2, 2, 3, 4}).Draw(rt, "ha_sel")
		} else {
			f.Dir, f.Typ, f.Sel = fwd, "HASH", rapid.IntRange(0, 2).Draw(rt, "ha_hsel")
		}
		switch f.Kind {
		case vfFaultDelete, vfFaultDup:
			f.N = rapid.IntRange(1, 3).Draw(rt, "ha_n")
		case vfFaultInsert:
			f.Data = []byte(rapid.SampledFrom([]string{"A", "=", "x9", "\n"}).Draw(rt, "ha_ins"))
		}
		cs.Faults = append(cs.Faults, f)
	}
	if blockMultiple {
		cs.Cfg.Compress = 2
		cs.Lies, cs.JLies = nil, nil
		cs.Faults = append(cs.Faults, vfFaultSpec{Dir: map[bool]string{true: "c2s", false: "s2c"}[cs.Cfg.Upload], Kind: vfFaultFlip, Mode: "typ",
			Typ: rapid.SampledFrom([]string{"DATA", "BIN", "BIN", "DATA"}).Draw(rt, "blocktyp"), Sel: rapid.IntRange(0, 60).Draw(rt, "blocksel"),
			BSel: rapid.SampledFrom([]int{-1, -2, -5, -64, -1000, 20, 100, 1000}).Draw(rt, "blockbsel"), Bit: rapid.IntRange(0, 7).Draw(rt, "blockbit"), Late: true})
		nf = 0
	}
	for i := 0; i < nf; i++ {
		var f vfFaultSpec
		f.Dir = rapid.SampledFrom([]string{"c2s", "s2c"}).Draw(rt, "dir")
		f.Kind = rapid.SampledFrom([]string{vfFaultFlip, vfFaultFlip, vfFaultDelete, vfFaultDup, vfFaultInsert, vfFaultTrunc, "dupline", "delline"}).Draw(rt, "kind")
		if rapid.IntRange(0, 3).Draw(rt, "bytype") == 0 {
			// every phase gets its share, however few bytes it has on the wire
			f.Mode = "typ"
			f.Typ = rapid.SampledFrom([]string{"NUM", "NAME", "SIZE", "HASH", "COMP", "DATA", "BIN", "SUCC", "MD5", "EXIT", "SUCC", "HASH"}).Draw(rt, "ftyp")
			f.Sel = rapid.IntRange(0, 60).Draw(rt, "typsel")
			f.BSel = rapid.SampledFrom([]int{0, 1, 2, 5, 6, 7, 8, 9, 12, 20, 33, -1, -2, -3, -5}).Draw(rt, "tbsel")
		} else if rapid.Bool().Draw(rt, "boundary") {
			f.Mode = "msg"
			f.Sel = rapid.IntRange(0, 400).Draw(rt, "msgsel")
			f.BSel = rapid.SampledFrom([]int{0, 1, 2, 5, 6, 7, 8, 9, -1, -2, -3, 17, 40}).Draw(rt, "bsel")
		} else {
			f.Mode = "frac"
			f.Sel = rapid.IntRange(0, 65535).Draw(rt, "frac")
		}
		f.Bit = rapid.IntRange(0, 7).Draw(rt, "bit")
		f.Late = rapid.IntRange(0, 3).Draw(rt, "late") != 0
		switch f.Kind {
		case vfFaultDelete:
			f.N = rapid.IntRange(1, 3).Draw(rt, "ndel")
		case vfFaultDup:
			f.N = rapid.IntRange(1, 64).Draw(rt, "ndup")
		case vfFaultInsert:
			f.Data = rapid.SliceOfN(rapid.Byte(), 1, 8).Draw(rt, "ins")
		}
		cs.Faults = append(cs.Faults, f)
	}
	return cs
}

func vfC02Eval(c *vfCollector, cs vfC02Case, res *vfC02Res) {
	labels := vfPairLabels(cs.Cfg)
	for _, p := range res.phases {
		labels = append(labels, "fault@"+p)
	}
	labels = append(labels, "outcome_"+res.outcome)
	if res.outcome == "hang" {
		c.inconclusive("watchdog")
	}
	c.eval(cs, res.applied > 0, labels...)
}

func TestVF_C02(t *testing.T) {
	c := vfNewCollector("C02", "TestVF_C02")
	vfCheck(t, c, vfGenC02, func(cs vfC02Case) string {
		var res vfC02Res
		msg := vfC02Run(cs, &res)
		vfC02Eval(c, cs, &res)
		return msg
	})
}

// TestVF_C02Exhaustive: every offset of both transcripts of fixed one-file scenarios, bit flip and 1-byte delete.
func TestVF_C02Exhaustive(t *testing.T) {
	c := vfNewCollector("C02", "TestVF_C02Exhaustive")
	defer vfFlushAll()
	if vfReplayOnly() {
		return
	}
	shard, shards := vfShard()
	stride := vfEnvInt("VERIF_C02_STRIDE", 1)
	scen := []vfC02Case{
		{Cfg: vfPairCfg{Upload: false, Binary: true, Protocol: 2, Timeout: 1}, Files: []vfFile{{Rel: []string{"a.bin"}, Size: 300, Kind: vfKindNoise, Seed: 11}}},
		{Cfg: vfPairCfg{Upload: true, Protocol: 4, Overwrite: true, Compress: 1, Timeout: 1}, Files: []vfFile{{Rel: []string{"b.txt"}, Size: 700, Kind: vfKindText, Seed: 12}}},
		{Cfg: vfPairCfg{Upload: true, Binary: true, Escape: true, Protocol: 3, Timeout: 1}, Files: []vfFile{{Rel: []string{"c.bin"}, Size: 200, Kind: vfKindEscapeRich, Seed: 13}}},
	}
	job := 0
	var evals, nontriv int64
	for si, sc := range scen {
		// transcript lengths from a dry run
		base, _ := os.MkdirTemp("", "vfc02x")
		paths, dest, _ := vfC02Setup(sc, base)
		r0 := vfNewPair(sc.Cfg)
		r0.run(paths, dest, 60*time.Second)
		os.RemoveAll(base)
		if r0.clientErr != nil || r0.serverErr != nil {
			t.Fatalf("scenario %d dry run failed: %s", si, r0.describe())
		}
		lens := map[string]int{"c2s": len(r0.c2s.transcript()), "s2c": len(r0.s2c.transcript())}
		for _, dir := range []string{"c2s", "s2c"} {
			for off := 0; off < lens[dir]; off += stride {
				for _, kind := range []string{vfFaultFlip, vfFaultDelete} {
					job++
					if job%shards != shard {
						continue
					}
					cs := sc
					cs.Faults = []vfFaultSpec{{Dir: dir, Kind: kind, Mode: "abs", Sel: off, Bit: off % 8, N: 1}}
					var res vfC02Res
					msg := vfGuard(func() string { return vfC02Run(cs, &res) })
					evals++
					if res.applied > 0 {
						nontriv++
					}
					c.label("outcome_" + res.outcome)
					for _, p := range res.phases {
						c.label("fault@" + p)
					}
					if res.outcome == "hang" {
						c.inconclusive("watchdog")
					}
					if msg != "" {
						c.violation("exhaustive", cs, msg)
						c.evalEnum(evals, nontriv, "every_offset")
						t.Fatalf("%s", msg)
					}
				}
			}
		}
		c.addSample(map[string]any{"scenario": sc, "transcript_bytes": lens, "enumerated": "every offset (stride " + fmt.Sprint(stride) + ") x {bit flip, delete one byte}"})
	}
	c.evalEnum(evals, nontriv, "every_offset")
	if stride == 1 {
		c.mu.Lock()
		c.Exhaustive = true
		c.mu.Unlock()
	}
}

// ---------------------------------------------------------------------------------
// C04 (e): wire level. The protected set is decoded from the CFG line as seen on the wire; nothing the uploading
// client writes after its ACT line may contain a protected byte.

type vfC04WireCase struct {
	Cfg   vfPairCfg `json:"cfg"`
	Files []vfFile  `json:"files"`
}

func vfDecodeLine(line []byte) ([]byte, error) {
	i := bytes.IndexByte(line, ':')
	if i < 0 {
		return nil, fmt.Errorf("no colon")
	}
	body := bytes.TrimRight(line[i+1:], "!\n")
	raw, err := base64.StdEncoding.DecodeString(string(body))
	if err != nil {
		return nil, err
	}
	z, err := zlib.NewReader(bytes.NewReader(raw))
	if err != nil {
		return nil, err
	}
	defer z.Close()
	return io.ReadAll(z)
}

func vfC04WireRun(cs vfC04WireCase, sawProtected *bool) string {
	base, err := os.MkdirTemp("", "vfc04w")
	if err != nil {
		return "mkdtemp: " + err.Error()
	}
	defer os.RemoveAll(base)
	paths, dest, err := vfC02Setup(vfC02Case{Files: cs.Files}, base)
	if err != nil {
		return ""
	}
	vfCurCase("TestVF_C04Wire", cs)
	r := vfNewPair(cs.Cfg)
	r.propagate = true
	r.run(paths, dest, 90*time.Second)
	if r.hung || r.clientErr != nil || r.serverErr != nil {
		return "fault-free upload failed: " + r.describe()
	}
	// the CFG line as seen on the wire
	s2c := r.s2c.transcript()
	var cfg struct {
		Binary bool            `json:"binary"`
		Escape [][]string      `json:"escape_chars"`
	}
	found := false
	for _, m := range r.s2c.messages() {
		if m.Typ == "CFG" {
			js, err := vfDecodeLine(s2c[m.Off : m.Off+int64(m.Len)])
			if err != nil {
				return "cannot decode the CFG line: " + err.Error()
			}
			if err := json.Unmarshal(js, &cfg); err != nil {
				return "cannot parse the CFG JSON: " + err.Error()
			}
			found = true
			break
		}
	}
	if !found {
		return "no CFG line on the wire"
	}
	if !cfg.Binary {
		return "" // base64 transfer: nothing to protect
	}
	protected := map[byte]bool{}
	for _, pr := range cfg.Escape {
		if len(pr) == 2 {
			s := []rune(pr[0])
			if len(s) == 1 && byte(s[0]) != escapeLeaderByte {
				protected[byte(s[0])] = true
			}
		}
	}
	c2s := r.c2s.transcript()
	msgs := r.c2s.messages()
	start := int64(0)
	if len(msgs) > 0 && msgs[0].Typ == "ACT" {
		start = msgs[0].Off + int64(msgs[0].Len)
	}
	for i := start; i < int64(len(c2s)); i++ {
		if protected[c2s[i]] {
			phase := "?"
			for _, m := range msgs {
				if i >= m.Off && i < m.Off+int64(m.Len) {
					phase = m.Typ
				}
			}
			return fmt.Sprintf("the uploading client wrote protected byte 0x%02x at offset %d of its output (inside a %s message; table has %d entries)", c2s[i], i, phase, len(cfg.Escape))
		}
	}
	for _, f := range cs.Files {
		for _, b := range vfContent(f.Kind, f.Seed, f.Size) {
			if protected[b] {
				*sawProtected = true
				break
			}
		}
	}
	return ""
}

func vfGenC04Wire(rt *rapid.T) vfC04WireCase {
	var cs vfC04WireCase
	n := rapid.IntRange(1, 3).Draw(rt, "nfiles")
	var total int64
	for i := 0; i < n; i++ {
		f := vfGenFile(rt, []string{fmt.Sprintf("u%d~\x1b.bin", i)}, "f", true)
		f.Kind = rapid.SampledFrom([]int{vfKindEscapeRich, vfKindEscapeRich, vfKindNoise, vfKindText, vfKindHeadCompressible}).Draw(rt, "kind")
		total += f.Size
		cs.Files = append(cs.Files, f)
	}
	cs.Cfg = vfGenPairCfg(rt, total)
	cs.Cfg.Upload = true
	cs.Cfg.Binary = true
	cs.Cfg.WinServer = false
	cs.Cfg.TmuxJunk = false
	cs.Cfg.Directory = rapid.Bool().Draw(rt, "dirmode")
	return cs
}

func TestVF_C04Wire(t *testing.T) {
	c := vfNewCollector("C04", "TestVF_C04Wire")
	vfCheck(t, c, vfGenC04Wire, func(cs vfC04WireCase) string {
		saw := false
		msg := vfC04WireRun(cs, &saw)
		labels := append(vfPairLabels(cs.Cfg), "wire_level")
		c.eval(cs, saw, labels...)
		return msg
	})
}
