//go:build verif

// Shared file-system helpers: generated trees, deterministic content, tree comparison, snapshots.

package trzsz

import (
	"bytes"
	"crypto/sha1"
	"encoding/hex"
	"fmt"
	"io"
	"os"
	"path/filepath"
	"sort"
	"strings"

	"pgregory.net/rapid"
)

// content kinds
const (
	vfKindZeros = iota
	vfKindText
	vfKindNoise
	vfKindHeadCompressible // compressible head, noise tail
	vfKindEscapeRich
	vfKindNoiseHead // noise head, compressible tail
)

type vfFile struct {
	Rel   []string `json:"rel"` // path elements relative to the tree root
	IsDir bool     `json:"dir,omitempty"`
	Size  int64    `json:"size,omitempty"`
	Kind  int      `json:"kind,omitempty"`
	Seed  uint64   `json:"seed,omitempty"`
}

// vfTree is a list of top-level paths with their descendants, parents before children.
type vfTree struct {
	Files []vfFile `json:"files"`
}

func vfFill(buf []byte, kind int, seed uint64, off int64, total int64) {
	x := seed*2654435761 + uint64(off)*40503 + 1
	next := func() uint64 {
		x ^= x << 13
		x ^= x >> 7
		x ^= x << 17
		return x
	}
	const text = "The quick brown fox jumps over the lazy dog. 0123456789\n"
	for i := range buf {
		pos := off + int64(i)
		k := kind
		if kind == vfKindHeadCompressible {
			if pos < total/2 {
				k = vfKindText
			} else {
				k = vfKindNoise
			}
		} else if kind == vfKindNoiseHead {
			if pos < total/2 {
				k = vfKindNoise
			} else {
				k = vfKindText
			}
		}
		switch k {
		case vfKindZeros:
			buf[i] = 0
		case vfKindText:
			buf[i] = text[int((uint64(pos)+seed)%uint64(len(text)))]
		case vfKindNoise:
			if i%8 == 0 {
				next()
			}
			buf[i] = byte(x >> (uint(i%8) * 8))
		case vfKindEscapeRich:
			if i%8 == 0 {
				next()
			}
			buf[i] = []byte{0xee, '~', 0x02, 0x0d, 0x10, 0x11, 0x13, 0x18, 0x1b, 0x1d, 0x8d, 0x90, 0x91, 0x93, 0x9d, 'a'}[(x>>(uint(i%8)*8))&15]
		}
	}
}

// vfContent returns the full content of a generated file (noise is position-dependent only through 64-byte blocks so that
// partial regeneration at any offset agrees).
func vfContent(kind int, seed uint64, size int64) []byte {
	buf := make([]byte, size)
	const blk = 4096
	for off := int64(0); off < size; off += blk {
		end := off + blk
		if end > size {
			end = size
		}
		vfFill(buf[off:end], kind, seed, off, size)
	}
	return buf
}

func vfWriteFile(path string, kind int, seed uint64, size int64) error {
	return os.WriteFile(path, vfContent(kind, seed, size), 0644)
}

func (tr *vfTree) materialize(root string) error {
	for _, f := range tr.Files {
		p := filepath.Join(append([]string{root}, f.Rel...)...)
		if f.IsDir {
			if err := os.MkdirAll(p, 0755); err != nil {
				return err
			}
			continue
		}
		if err := os.MkdirAll(filepath.Dir(p), 0755); err != nil {
			return err
		}
		if err := vfWriteFile(p, f.Kind, f.Seed, f.Size); err != nil {
			return err
		}
	}
	return nil
}

func (tr *vfTree) topLevel() []string {
	var out []string
	seen := map[string]bool{}
	for _, f := range tr.Files {
		if !seen[f.Rel[0]] {
			seen[f.Rel[0]] = true
			out = append(out, f.Rel[0])
		}
	}
	return out
}

// ---------------------------------------------------------------------------------
// snapshots and comparison

type vfEntry struct {
	Dir  bool
	Size int64
	Sum  string
	Mode os.FileMode
	MT   int64
}

func vfSumFile(p string) (string, error) {
	f, err := os.Open(p)
	if err != nil {
		return "", err
	}
	defer f.Close()
	h := sha1.New()
	if _, err := io.Copy(h, f); err != nil {
		return "", err
	}
	return hex.EncodeToString(h.Sum(nil)), nil
}

// vfSnapshot walks root (not following symlinks) and returns relative path -> entry.
func vfSnapshot(root string) (map[string]vfEntry, error) {
	out := map[string]vfEntry{}
	err := filepath.Walk(root, func(p string, info os.FileInfo, err error) error {
		if err != nil {
			return err
		}
		rel, _ := filepath.Rel(root, p)
		if rel == "." {
			return nil
		}
		e := vfEntry{Dir: info.IsDir(), Mode: info.Mode(), MT: info.ModTime().UnixNano()}
		if info.Mode().IsRegular() {
			e.Size = info.Size()
			s, err := vfSumFile(p)
			if err != nil {
				return err
			}
			e.Sum = s
		}
		out[rel] = e
		return nil
	})
	return out, err
}

// vfDiffSnap describes the first differences between two snapshots ("" if equal). withMeta also compares mode and mtime.
func vfDiffSnap(before, after map[string]vfEntry, withMeta bool) string {
	var keys []string
	for k := range before {
		keys = append(keys, k)
	}
	for k := range after {
		if _, ok := before[k]; !ok {
			keys = append(keys, k)
		}
	}
	sort.Strings(keys)
	var diffs []string
	for _, k := range keys {
		b, okb := before[k]
		a, oka := after[k]
		switch {
		case !okb:
			diffs = append(diffs, fmt.Sprintf("+%q", k))
		case !oka:
			diffs = append(diffs, fmt.Sprintf("-%q", k))
		case a.Dir != b.Dir:
			diffs = append(diffs, fmt.Sprintf("type-changed %q", k))
		case a.Sum != b.Sum || a.Size != b.Size:
			diffs = append(diffs, fmt.Sprintf("content-changed %q (%d -> %d bytes)", k, b.Size, a.Size))
		case withMeta && (a.Mode != b.Mode):
			diffs = append(diffs, fmt.Sprintf("mode-changed %q (%v -> %v)", k, b.Mode, a.Mode))
		case withMeta && !a.Dir && a.MT != b.MT:
			diffs = append(diffs, fmt.Sprintf("mtime-changed %q", k))
		}
		if len(diffs) >= 6 {
			break
		}
	}
	return strings.Join(diffs, "; ")
}

// vfCompareSubtree checks that dst/<dstName> has exactly the structure and bytes of src/<srcName>.
func vfCompareSubtree(src, srcName, dst, dstName string) string {
	a, err := vfSnapshotOne(filepath.Join(src, srcName))
	if err != nil {
		return "source snapshot: " + err.Error()
	}
	b, err := vfSnapshotOne(filepath.Join(dst, dstName))
	if err != nil {
		return fmt.Sprintf("destination %q: %v", dstName, err)
	}
	if d := vfDiffSnap(a, b, false); d != "" {
		return fmt.Sprintf("destination %q differs from source %q: %s", dstName, srcName, d)
	}
	return ""
}

// vfSnapshotOne snapshots a file or directory; the entry itself is recorded under ".".
func vfSnapshotOne(p string) (map[string]vfEntry, error) {
	info, err := os.Lstat(p)
	if err != nil {
		return nil, err
	}
	if !info.IsDir() {
		s, err := vfSumFile(p)
		if err != nil {
			return nil, err
		}
		return map[string]vfEntry{".": {Size: info.Size(), Sum: s}}, nil
	}
	m, err := vfSnapshot(p)
	if err != nil {
		return nil, err
	}
	m["."] = vfEntry{Dir: true}
	return m, nil
}

func vfCountFDs() int {
	ents, err := os.ReadDir("/proc/self/fd")
	if err != nil {
		return -1
	}
	return len(ents)
}

// ---------------------------------------------------------------------------------
// generators

var vfFsAlphabets = [][]rune{
	[]rune("abcdefXYZ0123456789"),
	[]rune("ab c.d-e_f~(1)[2]{3}'!@#$%^&+=,;"),
	[]rune("文件名測試한국어テスト"),
	[]rune("😀🚀👍🏽é́ñ"),
}

func vfGenFsName(rt *rapid.T, label string) string {
	for {
		n := rapid.IntRange(1, 12).Draw(rt, label+"_len")
		if rapid.IntRange(0, 30).Draw(rt, label+"_long") == 0 {
			n = rapid.IntRange(40, 80).Draw(rt, label+"_len2")
		}
		ai := rapid.IntRange(0, len(vfFsAlphabets)-1).Draw(rt, label+"_alpha")
		al := vfFsAlphabets[ai]
		var b strings.Builder
		for i := 0; i < n && b.Len() < 240; i++ {
			b.WriteRune(al[rapid.IntRange(0, len(al)-1).Draw(rt, label+"_r")])
		}
		name := b.String()
		switch rapid.IntRange(0, 12).Draw(rt, label+"_lead") {
		case 0:
			name = "." + name
		case 1:
			name = "-" + name
		case 2:
			name = " " + name
		}
		if name == "." || name == ".." || len(name) > 255 || strings.ContainsAny(name, "/\x00") {
			continue
		}
		return name
	}
}

var vfBoundarySizes = []int64{0, 0, 1, 2, 511, 512, 513, 1023, 1024, 1025, 4095, 10239, 10240, 10241, 32767, 32768, 32769,
	65536, 131071, 131072, 131073, 262144, 393223}

func vfGenSize(rt *rapid.T, label string, allowBig bool) int64 {
	switch rapid.IntRange(0, 9).Draw(rt, label+"_szkind") {
	case 0, 1, 2, 3:
		return rapid.SampledFrom(vfBoundarySizes[:17]).Draw(rt, label+"_b")
	case 4:
		if allowBig {
			return rapid.SampledFrom(vfBoundarySizes).Draw(rt, label+"_bb")
		}
		return rapid.SampledFrom(vfBoundarySizes[:17]).Draw(rt, label+"_b2")
	case 5:
		if allowBig {
			return rapid.Int64Range(0, 1500000).Draw(rt, label+"_big")
		}
		return rapid.Int64Range(0, 40000).Draw(rt, label+"_mid")
	default:
		return rapid.Int64Range(0, 5000).Draw(rt, label+"_small")
	}
}

func vfGenFile(rt *rapid.T, rel []string, label string, allowBig bool) vfFile {
	return vfFile{Rel: rel, Size: vfGenSize(rt, label, allowBig), Kind: rapid.IntRange(0, 5).Draw(rt, label+"_kind"),
		Seed: rapid.Uint64Range(1, 1<<32).Draw(rt, label+"_seed")}
}

// vfGenDir appends a directory and its generated descendants.
func vfGenDir(rt *rapid.T, files *[]vfFile, rel []string, depth, maxDepth, fan int, allowBig bool) {
	*files = append(*files, vfFile{Rel: append([]string(nil), rel...), IsDir: true})
	n := rapid.IntRange(0, fan).Draw(rt, "nchildren")
	used := map[string]bool{}
	for i := 0; i < n; i++ {
		name := vfGenFsName(rt, "child")
		if rapid.IntRange(0, 7).Draw(rt, "child_named_like_top") == 0 {
			name = rel[0] // an entry deep in the tree with the same name as the top-level directory ("proj/proj", "proj/cmd/proj")
		}
		if used[name] {
			continue
		}
		used[name] = true
		crel := append(append([]string(nil), rel...), name)
		if depth < maxDepth && rapid.IntRange(0, 2).Draw(rt, "isdir") == 0 {
			vfGenDir(rt, files, crel, depth+1, maxDepth, fan, allowBig)
		} else {
			*files = append(*files, vfGenFile(rt, crel, "f", allowBig))
		}
	}
}

func vfEqualBytes(a, b []byte) bool { return bytes.Equal(a, b) }
