//go:build verif

// The harness-owned wire: one vfLink per direction. Everything a role writes passes, in order, through
// transcript -> tap (message numbering / events) -> byte faults -> silence -> segmenter -> sink.

package trzsz

import (
	"errors"
	"bytes"
	"strconv"
	"sync"
	"time"
)

type vfSeg struct {
	Mode int    `json:"mode"` // 0 as written, 1 fixed Size, 2 pseudo-random 1..Size, 3 line aligned, 4 single bytes, 5 coalesced: what is written within 3 ms arrives as one read (cut at Size), so a read carries complete lines and the beginning of the next
	Size int    `json:"size,omitempty"`
	Seed uint64 `json:"seed,omitempty"`
}

const (
	vfFaultFlip   = "flip"
	vfFaultDelete = "delete"
	vfFaultDup    = "dup"
	vfFaultInsert = "insert"
	vfFaultTrunc  = "truncate" // the direction goes silent from this offset on
)

type vfFault struct {
	Kind string `json:"kind"`
	Off  int64  `json:"off"` // offset in the stream the role wrote
	N    int    `json:"n,omitempty"`
	Bit  int    `json:"bit,omitempty"`
	Data []byte `json:"data,omitempty"`
}

type vfMsg struct {
	Dir string // "c2s" | "s2c"
	Idx int    // message index within the direction, from 0
	Typ string // ACT CFG NUM NAME SIZE DATA SUCC MD5 HASH COMP EXIT fail FAIL BIN(raw block) ?
	Off int64  // offset of the first byte
	Len int
	At  time.Time
	Txt string // first bytes of the line (without the block)
}

type vfLink struct {
	mu      sync.Mutex
	dir     string
	out     func([]byte)
	binary  bool // #DATA:<n> is followed by n raw bytes
	seg     vfSeg
	segX    uint64
	faults  []vfFault
	off     int64 // bytes fed so far
	silent  bool  // discard everything from now on
	record  bool
	rec     bytes.Buffer
	msgs    []vfMsg
	onMsg   func(m vfMsg, before bool) // called with the link lock released
	// rewrite is the MITM stage: it sees every message that arrives as one complete line in one write (all handshake,
	// name, size and ack lines do) and may return a replacement line.
	rewrite  func(m vfMsg, line []byte) []byte
	rewrites []func(m vfMsg, line []byte) []byte // further MITM stages, applied in order after rewrite
	// wholeTrigger: triggers are recognised within one read (per-read detection is the documented contract), so the
	// segmenter never splits a piece that carries the trigger marker.
	wholeTrigger bool
	// throttle: sleep after every data message so that a transfer lasts long enough for an event to land
	throttle time.Duration
	// latency: every delivered piece reaches the receiver this much later, in order (a delay line with its own goroutine)
	latency  time.Duration
	lagQ     []vfLagged
	lagBusy  bool
	line    []byte
	lineOff int64
	skip    int // raw bytes of a binary block still to pass
	started time.Time
	lastAt  time.Time
	applied int // faults that were actually applied inside the stream
	pend      []byte     // mode 5: bytes waiting to be delivered together
	pendTimer bool
	emitMu    sync.Mutex // mode 5: cutting and emitting happen under it, so that the timer cannot overtake
	silentIn  int        // > 0: the link goes silent after this many more bytes have been delivered (silence in the middle of a line)
	breakAt int // > 0: the writer's breakAt-th Write call and all later ones fail (see Write)
	writes  int
}

func newVfLink(dir string, out func([]byte)) *vfLink {
	return &vfLink{dir: dir, out: out, record: true, started: time.Now()}
}

// Write makes a link an io.Writer for the role that sends into it.
func (l *vfLink) Write(p []byte) (int, error) {
	if l.breakAt > 0 {
		l.mu.Lock()
		l.writes++
		broken := l.writes >= l.breakAt
		l.mu.Unlock()
		if broken {
			return 0, errors.New("write: broken pipe") // the connection is gone: this write and every later one fails, nothing is delivered
		}
	}
	l.feed(p)
	return len(p), nil
}

func (l *vfLink) Close() error { return nil }

type vfPending struct {
	m      vfMsg
	before bool
}

// feed passes one write through the stages.
func (l *vfLink) feed(p []byte) {
	if len(p) == 0 {
		return
	}
	l.mu.Lock()
	now := time.Now()
	l.lastAt = now
	if l.record {
		l.rec.Write(p)
	}
	// tap: split the write at message boundaries so that events fire exactly before / after a message
	type piece struct {
		data []byte
		pre  []vfMsg // messages that begin with this piece
		post []vfMsg // messages that end with this piece
	}
	var pieces []piece
	start := 0
	cur := piece{}
	for i := 0; i < len(p); i++ {
		abs := l.off + int64(i)
		if l.skip > 0 {
			l.skip--
			if l.skip == 0 {
				cur.data = p[start : i+1]
				cur.post = append(cur.post, l.msgs[len(l.msgs)-1])
				pieces = append(pieces, cur)
				cur = piece{}
				start = i + 1
			}
			continue
		}
		if len(l.line) == 0 {
			l.lineOff = abs
			// a new message begins here
			if i > start {
				cur.data = p[start:i]
				pieces = append(pieces, cur)
				cur = piece{}
				start = i
			}
			m := vfMsg{Dir: l.dir, Idx: len(l.msgs), Off: abs, At: now, Typ: "?"}
			l.msgs = append(l.msgs, m)
			cur.pre = append(cur.pre, m)
		}
		l.line = append(l.line, p[i])
		if p[i] == '\n' {
			mi := len(l.msgs) - 1
			l.msgs[mi].Len = len(l.line)
			l.msgs[mi].Typ, l.msgs[mi].Txt = vfClassify(l.line)
			blk := 0
			if l.binary && l.msgs[mi].Typ == "DATA" {
				body := bytes.TrimRight(l.line[6:], "!\n")
				if n, err := strconv.Atoi(string(body)); err == nil && n > 0 {
					blk = n
				}
			}
			l.line = l.line[:0]
			if blk > 0 {
				// the raw block is its own message
				cur.data = p[start : i+1]
				cur.post = append(cur.post, l.msgs[mi])
				pieces = append(pieces, cur)
				cur = piece{}
				start = i + 1
				bm := vfMsg{Dir: l.dir, Idx: len(l.msgs), Off: abs + 1, At: now, Typ: "BIN", Len: blk}
				l.msgs = append(l.msgs, bm)
				cur.pre = append(cur.pre, bm)
				l.skip = blk
			} else {
				cur.data = p[start : i+1]
				cur.post = append(cur.post, l.msgs[mi])
				pieces = append(pieces, cur)
				cur = piece{}
				start = i + 1
			}
		}
	}
	if start < len(p) {
		cur.data = p[start:]
		pieces = append(pieces, cur)
	} else if len(cur.pre) > 0 {
		pieces = append(pieces, cur)
	}
	base := l.off
	l.off += int64(len(p))
	onMsg := l.onMsg
	l.mu.Unlock()

	off := base
	for _, pc := range pieces {
		if onMsg != nil {
			for _, m := range pc.pre {
				onMsg(m, true)
			}
		}
		if len(pc.data) > 0 {
			data := pc.data
			if (l.rewrite != nil || len(l.rewrites) > 0) && len(pc.pre) == 1 && len(pc.post) == 1 && pc.pre[0].Idx == pc.post[0].Idx && pc.post[0].Typ != "BIN" {
				l.mu.Lock()
				mm := l.msgs[pc.post[0].Idx]
				l.mu.Unlock()
				if mm.Len == len(data) {
					if l.rewrite != nil {
						if nd := l.rewrite(mm, data); nd != nil {
							data = nd
						}
					}
					for _, rw := range l.rewrites {
						if nd := rw(mm, data); nd != nil {
							data = nd
						}
					}
				}
			}
			l.deliver(data, off)
			off += int64(len(pc.data))
		}
		if l.throttle > 0 {
			for _, m := range pc.post {
				if m.Typ == "BIN" || (m.Len > 64 && !l.binary) {
					time.Sleep(l.throttle)
				}
			}
		}
		if onMsg != nil {
			for _, m := range pc.post {
				// refresh type (known only at the end of the line)
				l.mu.Lock()
				mm := l.msgs[m.Idx]
				l.mu.Unlock()
				onMsg(mm, false)
			}
		}
	}
}

// feedRaw passes bytes through without the protocol tap: one call is one read for the receiver (used when the harness
// plays the remote shell, where "within one read" matters and there are no protocol messages to number).
func (l *vfLink) feedRaw(p []byte) {
	if len(p) == 0 {
		return
	}
	l.mu.Lock()
	if l.record {
		l.rec.Write(p)
	}
	off := l.off
	l.off += int64(len(p))
	l.lastAt = time.Now()
	l.mu.Unlock()
	l.deliver(p, off)
}

func vfClassify(line []byte) (string, string) {
	txt := string(line)
	if len(txt) > 48 {
		txt = txt[:48]
	}
	if len(line) < 2 || line[0] != '#' {
		return "?", txt
	}
	i := bytes.IndexByte(line, ':')
	if i < 2 || i > 6 {
		return "?", txt
	}
	return string(line[1:i]), txt
}

// deliver applies byte faults, silence and segmentation to one piece and hands it to the sink.
func (l *vfLink) deliver(data []byte, off int64) {
	l.mu.Lock()
	if l.silent {
		l.mu.Unlock()
		return
	}
	out := data
	if len(l.faults) > 0 {
		var b []byte
		copied := false
		end := off + int64(len(data))
		for fi := range l.faults {
			f := &l.faults[fi]
			if f.Off < off || f.Off >= end || f.Kind == "" {
				continue
			}
			if !copied {
				b = append([]byte(nil), data...)
				copied = true
			}
			// position inside b: faults are applied right-to-left safe only if sorted descending; keep it simple:
			// recompute relative to the unmodified data and rebuild
			rel := int(f.Off - off)
			switch f.Kind {
			case vfFaultFlip:
				if rel < len(b) {
					b[rel] ^= 1 << uint(f.Bit&7)
				}
			case vfFaultDelete:
				n := f.N
				if n < 1 {
					n = 1
				}
				if rel+n > len(b) {
					n = len(b) - rel
				}
				if rel < len(b) {
					b = append(b[:rel], b[rel+n:]...)
				}
			case vfFaultDup:
				n := f.N
				if n < 1 {
					n = 1
				}
				if rel+n > len(b) {
					n = len(b) - rel
				}
				if rel < len(b) {
					dup := append([]byte(nil), b[rel:rel+n]...)
					b = append(b[:rel+n], append(dup, b[rel+n:]...)...)
				}
			case vfFaultInsert:
				if rel <= len(b) {
					b = append(b[:rel], append(append([]byte(nil), f.Data...), b[rel:]...)...)
				}
			case vfFaultTrunc:
				if rel < len(b) {
					b = b[:rel]
				}
				l.silent = true
			}
			f.Kind = "" // applied once
			l.applied++
			// after a length-changing fault the remaining faults of this piece would be misaligned: at most one
			// length-changing fault per piece is generated
		}
		if copied {
			out = b
		}
	}
	if l.silentIn > 0 {
		if len(out) >= l.silentIn {
			out = out[:l.silentIn]
			l.silentIn = 0
			l.silent = true
		} else {
			l.silentIn -= len(out)
		}
	}
	seg := l.seg
	if l.wholeTrigger && bytes.Contains(out, []byte("::TRZSZ:TRANSFER:")) {
		seg = vfSeg{}
	}
	coalescing := l.seg.Mode == 5
	l.mu.Unlock()
	if len(out) == 0 {
		return
	}
	if coalescing && seg.Mode != 5 {
		l.flushPend() // this piece goes out by itself (a trigger): what waits in front of it goes first
	}
	switch seg.Mode {
	case 0:
		l.emit(out)
	case 1, 2, 4:
		pos := 0
		for pos < len(out) {
			sz := seg.Size
			if seg.Mode == 4 || sz < 1 {
				sz = 1
			}
			if seg.Mode == 2 {
				l.mu.Lock()
				if l.segX == 0 {
					l.segX = seg.Seed | 1
				}
				l.segX ^= l.segX << 13
				l.segX ^= l.segX >> 7
				l.segX ^= l.segX << 17
				sz = 1 + int(l.segX%uint64(sz))
				l.mu.Unlock()
			}
			if sz > len(out)-pos {
				sz = len(out) - pos
			}
			l.emit(out[pos : pos+sz])
			pos += sz
		}
	case 5:
		sz := seg.Size
		if sz < 1 {
			sz = 1 << 20
		}
		l.emitMu.Lock()
		l.mu.Lock()
		l.pend = append(l.pend, out...)
		var ready [][]byte
		for len(l.pend) >= sz {
			ready = append(ready, append([]byte(nil), l.pend[:sz]...))
			l.pend = l.pend[sz:]
		}
		if len(l.pend) > 0 && !l.pendTimer {
			l.pendTimer = true
			time.AfterFunc(3*time.Millisecond, l.flushPend)
		}
		l.mu.Unlock()
		for _, r := range ready {
			l.emit(r)
		}
		l.emitMu.Unlock()
	case 3:
		pos := 0
		for pos < len(out) {
			i := bytes.IndexByte(out[pos:], '\n')
			if i < 0 {
				l.emit(out[pos:])
				break
			}
			l.emit(out[pos : pos+i+1])
			pos += i + 1
		}
	}
}

type vfLagged struct {
	due  time.Time
	data []byte
}

func (l *vfLink) flushPend() {
	l.emitMu.Lock()
	defer l.emitMu.Unlock()
	l.mu.Lock()
	rest := l.pend
	l.pend = nil
	l.pendTimer = false
	l.mu.Unlock()
	if len(rest) > 0 {
		l.emit(rest)
	}
}

func (l *vfLink) setLatency(d time.Duration) {
	l.mu.Lock()
	l.latency = d
	l.mu.Unlock()
}

// emit hands one piece to the receiver, through the delay line when a latency is set (or while the line still holds older pieces)
func (l *vfLink) emit(p []byte) {
	l.mu.Lock()
	if l.latency <= 0 && len(l.lagQ) == 0 && !l.lagBusy {
		l.mu.Unlock()
		l.out(p)
		return
	}
	l.lagQ = append(l.lagQ, vfLagged{due: time.Now().Add(l.latency), data: append([]byte(nil), p...)})
	if !l.lagBusy {
		l.lagBusy = true
		go l.lagWorker()
	}
	l.mu.Unlock()
}

func (l *vfLink) lagWorker() {
	for {
		l.mu.Lock()
		if len(l.lagQ) == 0 {
			l.lagBusy = false
			l.mu.Unlock()
			return
		}
		it := l.lagQ[0]
		l.mu.Unlock()
		if d := time.Until(it.due); d > 0 {
			time.Sleep(d)
		}
		l.out(it.data)
		l.mu.Lock()
		l.lagQ = l.lagQ[1:]
		l.mu.Unlock()
	}
}

func (l *vfLink) setSilent(v bool) {
	l.mu.Lock()
	l.silent = v
	l.mu.Unlock()
}

func (l *vfLink) transcript() []byte {
	l.mu.Lock()
	defer l.mu.Unlock()
	return append([]byte(nil), l.rec.Bytes()...)
}

func (l *vfLink) messages() []vfMsg {
	l.mu.Lock()
	defer l.mu.Unlock()
	return append([]vfMsg(nil), l.msgs...)
}

func (l *vfLink) appliedFaults() int {
	l.mu.Lock()
	defer l.mu.Unlock()
	return l.applied
}
