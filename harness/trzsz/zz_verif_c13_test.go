//go:build verif

// C13 — a relay never loses, duplicates or reorders bytes, under any scheduling (E4: in-process relay built from the
// yield-instrumented relay.go / buffer.go, generated arrival pattern + generated schedule plan).

package trzsz

import (
	"bytes"
	"encoding/json"
	"fmt"
	"os"
	"regexp"
	"strings"
	"sync"
	"testing"
	"time"

	"pgregory.net/rapid"
)

type vfC13Xfer struct {
	StandbyC   [][]byte `json:"standby_c"`
	StandbyS   [][]byte `json:"standby_s"`
	TrigPrefix []byte   `json:"trig_prefix"`
	TrigSuffix []byte   `json:"trig_suffix"`
	Mode       string   `json:"mode"`
	ID         string   `json:"id"`
	Outcome    string   `json:"outcome"` // confirm | cancel | bad_act | bad_cfg
	ActTail    []byte   `json:"act_tail"` // client bytes directly after the ACT line
	ActCuts    []int    `json:"act_cuts"` // cuts of (ACT line + tail)
	CfgTail    []byte   `json:"cfg_tail"`
	CfgCuts    []int    `json:"cfg_cuts"`
	CfgEarly   bool     `json:"cfg_early"` // the server's config line is delivered without waiting for the forwarded action
	CfgLate    bool     `json:"cfg_late,omitempty"` // the server answers only after the client has sent everything it has (all of it is held then)
	XferC      [][]byte `json:"xfer_c"`
	XferS      [][]byte `json:"xfer_s"`
	End        string   `json:"end"` // exit_c | fail_c | fail_s | exit_s | ctrlc
	GapsUs     []int    `json:"gaps_us"`
}

type vfC13Case struct {
	Xfers []vfC13Xfer   `json:"xfers"`
	Plan  []vfYieldStep `json:"plan"`
	Tmux  bool          `json:"tmux"`
}

type vfC13Res struct {
	fired       int
	handshaking int // bytes fed while the relay was handshaking, besides the ACT / CFG lines
	straddle    bool
	sitesHit    map[string]bool
}

const vfActJSON = `{"lang":"go","version":"1.1.8","confirm":true,"newline":"\n","protocol":4,"binary":true,"support_dir":true}`
const vfActCancelJSON = `{"lang":"go","version":"1.1.8","confirm":false,"newline":"\n","protocol":4,"binary":true,"support_dir":true}`
const vfCfgJSON = `{"lang":"go","bufsize":10485760,"timeout":20,"protocol":4,"quiet":true}`

func vfJoinChunks(chs [][]byte) []byte {
	var b []byte
	for _, c := range chs {
		b = append(b, c...)
	}
	return b
}

func vfGap(x *vfC13Xfer, i *int) {
	if len(x.GapsUs) == 0 {
		return
	}
	g := x.GapsUs[*i%len(x.GapsUs)]
	*i++
	if g > 0 {
		time.Sleep(time.Duration(g) * time.Microsecond)
	}
}

func vfWaitBytes(rec *vfRecorder, n int, limit time.Duration) bool {
	deadline := time.Now().Add(limit)
	for rec.len() < n {
		if time.Now().After(deadline) {
			return false
		}
		time.Sleep(50 * time.Microsecond)
	}
	return true
}

// vfRelayedTrigger is the reference form of a trigger forwarded by a relay: id re-tagged 00 -> 20, "#R" after the trigger.
func vfRelayedTrigger(x *vfC13Xfer) (raw, relayed []byte) {
	g := vfTrig{Mode: x.Mode, Version: "1.1.8", ID: x.ID, Port: "0"}
	txt := g.text()
	g2 := g
	g2.ID = vfRetag(x.ID)
	raw = append(append(append([]byte(nil), x.TrigPrefix...), txt...), x.TrigSuffix...)
	relayed = append(append(append([]byte(nil), x.TrigPrefix...), g2.text()+"#R"...), x.TrigSuffix...)
	return
}

func vfC13Run(cs vfC13Case, res *vfC13Res) string {
	g := newVfRelayRig(cs.Tmux, 80)
	defer g.close()
	plan := vfInstallPlan(cs.Plan)
	defer vfClearPlan()
	var wantSrv, wantCli []byte // what must have come out so far, excluding the relay's own lines
	type seg = vfStreamSeg // lit: literal bytes; lines: prefixes of relay-made lines expected at this position, in order
	var segSrv, segCli []seg
	for xi := range cs.Xfers {
		x := &cs.Xfers[xi]
		gi := 0
		// standby: pass through unchanged; fully relayed before the trigger is fed (junk in front of a handshake line is discarded by design)
		var wg sync.WaitGroup
		wg.Add(2)
		go func() {
			defer wg.Done()
			for _, ch := range x.StandbyC {
				g.cliIn.feed(ch)
			}
		}()
		go func() {
			defer wg.Done()
			for _, ch := range x.StandbyS {
				g.srvOut.feed(ch)
			}
		}()
		wg.Wait()
		sc, ss := vfJoinChunks(x.StandbyC), vfJoinChunks(x.StandbyS)
		segSrv = append(segSrv, seg{lit: sc})
		segCli = append(segCli, seg{lit: ss})
		wantSrv = append(wantSrv, sc...)
		wantCli = append(wantCli, ss...)
		relayLinesSrv, relayLinesCli := 0, 0
		countLines := func(b []byte, n int) bool { return bytes.Count(b, []byte("\n")) >= n }
		_ = countLines
		if !vfWaitStreams(g, segSrv, segCli, 3*time.Second) {
			return vfC13Diff(g, segSrv, segCli, fmt.Sprintf("transfer %d: standby bytes were not all relayed", xi))
		}
		// trigger
		rawT, relT := vfRelayedTrigger(x)
		g.srvOut.feed(rawT)
		segCli = append(segCli, seg{lit: relT})
		if !vfWaitStreams(g, segSrv, segCli, 3*time.Second) {
			return vfC13Diff(g, segSrv, segCli, fmt.Sprintf("transfer %d: the trigger was not forwarded in relayed form", xi))
		}
		// the action line and the client bytes after it, cut anywhere
		actLine := vfEncodeLine("ACT", []byte(vfActJSON), "\n")
		switch x.Outcome {
		case "cancel":
			actLine = vfEncodeLine("ACT", []byte(vfActCancelJSON), "\n")
		case "bad_act":
			actLine = []byte("#ACT:!!!not-base64!!!\n")
		}
		cfgLine := vfEncodeLine("CFG", []byte(vfCfgJSON), "\n")
		if x.Outcome == "bad_cfg" {
			cfgLine = []byte("#CFG:???\n")
		}
		clientStream := append(append([]byte(nil), actLine...), x.ActTail...)
		serverStream := append(append([]byte(nil), cfgLine...), x.CfgTail...)
		sendsCfg := x.Outcome == "confirm" || x.Outcome == "bad_cfg" || x.Outcome == "gave_up"
		for _, c := range x.ActCuts {
			if c > 0 && c < len(actLine) {
				res.straddle = true
			}
		}
		res.handshaking += len(x.ActTail)
		if sendsCfg {
			res.handshaking += len(x.CfgTail)
		}
		wg.Add(2)
		clientFed := make(chan struct{})
		go func() {
			defer wg.Done()
			defer close(clientFed)
			for _, ch := range vfChunks(clientStream, x.ActCuts) {
				g.cliIn.feed(ch)
				vfGap(x, &gi)
			}
		}()
		go func() {
			defer wg.Done()
			if !sendsCfg {
				return
			}
			if !x.CfgEarly {
				// a real server answers once the action has reached it
				deadline := time.Now().Add(3 * time.Second)
				for !bytes.Contains(g.srvIn.bytes()[len(wantSrv):], []byte("#ACT:")) && time.Now().Before(deadline) {
					time.Sleep(50 * time.Microsecond)
				}
			}
			if x.CfgLate {
				<-clientFed
				time.Sleep(30 * time.Millisecond)
			}
			gj := 1
			for _, ch := range vfChunks(serverStream, x.CfgCuts) {
				g.srvOut.feed(ch)
				vfGap(x, &gj)
			}
		}()
		wg.Wait()
		switch x.Outcome {
		case "confirm", "gave_up":
			segSrv = append(segSrv, seg{lines: []string{"#ACT:"}}, seg{lit: x.ActTail})
			segCli = append(segCli, seg{lines: []string{"#CFG:"}}, seg{lit: x.CfgTail})
			relayLinesSrv, relayLinesCli = 1, 1
		case "cancel":
			segSrv = append(segSrv, seg{lines: []string{"#ACT:"}}, seg{lit: x.ActTail})
		case "bad_act":
			segSrv = append(segSrv, seg{lines: []string{"#FAIL:"}}, seg{lit: x.ActTail})
			segCli = append(segCli, seg{lines: []string{"#FAIL:"}})
		case "bad_cfg":
			segSrv = append(segSrv, seg{lines: []string{"#ACT:", "#FAIL:"}}, seg{lit: x.ActTail})
			segCli = append(segCli, seg{lines: []string{"#FAIL:"}}, seg{lit: x.CfgTail})
		}
		_, _ = relayLinesSrv, relayLinesCli
		if !vfWaitStreams(g, segSrv, segCli, 4*time.Second) {
			return vfC13Diff(g, segSrv, segCli, fmt.Sprintf("transfer %d (%s): bytes around the handshake were lost, duplicated or reordered", xi, x.Outcome))
		}
		wantSrv, wantCli = g.srvIn.bytes(), g.cliOut.bytes()
		if x.Outcome != "confirm" {
			// back to standby by itself
			deadline := time.Now().Add(3 * time.Second)
			for g.relay.relayStatus.Load() != kRelayStandBy && time.Now().Before(deadline) {
				time.Sleep(100 * time.Microsecond)
			}
			if x.Outcome == "gave_up" && g.relay.relayStatus.Load() != kRelayStandBy {
				return fmt.Sprintf("transfer %d: the relay did not return to standby after the client gave up right behind its action", xi)
			}
			continue
		}
		// transfer phase, both ways concurrently
		deadline := time.Now().Add(3 * time.Second)
		for g.relay.relayStatus.Load() != kRelayTransferring && time.Now().Before(deadline) {
			time.Sleep(50 * time.Microsecond)
		}
		wg.Add(2)
		go func() {
			defer wg.Done()
			for _, ch := range x.XferC {
				g.cliIn.feed(ch)
				vfGap(x, &gi)
			}
		}()
		go func() {
			defer wg.Done()
			gj := 2
			for _, ch := range x.XferS {
				g.srvOut.feed(ch)
				vfGap(x, &gj)
			}
		}()
		wg.Wait()
		segSrv = append(segSrv, seg{lit: vfJoinChunks(x.XferC)})
		segCli = append(segCli, seg{lit: vfJoinChunks(x.XferS)})
		if !vfWaitStreams(g, segSrv, segCli, 4*time.Second) {
			return vfC13Diff(g, segSrv, segCli, fmt.Sprintf("transfer %d: transfer-phase bytes were lost, duplicated or reordered", xi))
		}
		// the end marker, in one read
		var endC, endS []byte
		switch x.End {
		case "exit_c":
			endC = vfEncodeLine("EXIT", []byte("Saved 1 file"), "\n")
		case "fail_c":
			endC = vfEncodeLine("fail", []byte("Stopped"), "\n")
		case "fail_s":
			endS = vfEncodeLine("FAIL", []byte("some error"), "\n")
		case "exit_s":
			endS = vfEncodeLine("EXIT", []byte("x"), "\n")
		default:
			endC = []byte{0x03}
		}
		if endC != nil {
			g.cliIn.feed(endC)
			segSrv = append(segSrv, seg{lit: endC})
		}
		if endS != nil {
			g.srvOut.feed(endS)
			segCli = append(segCli, seg{lit: endS})
		}
		if !vfWaitStreams(g, segSrv, segCli, 3*time.Second) {
			return vfC13Diff(g, segSrv, segCli, fmt.Sprintf("transfer %d: the end marker was not relayed", xi))
		}
		deadline = time.Now().Add(3 * time.Second)
		for g.relay.relayStatus.Load() != kRelayStandBy {
			if time.Now().After(deadline) {
				return fmt.Sprintf("transfer %d: the relay did not return to standby after %s", xi, x.End)
			}
			time.Sleep(100 * time.Microsecond)
		}
		wantSrv, wantCli = g.srvIn.bytes(), g.cliOut.bytes()
	}
	// identity again in both directions
	g.cliIn.feed([]byte("final-probe-from-client\r"))
	g.srvOut.feed([]byte("final-probe-from-server\r\n"))
	segSrv = append(segSrv, seg{lit: []byte("final-probe-from-client\r")})
	segCli = append(segCli, seg{lit: []byte("final-probe-from-server\r\n")})
	if !vfWaitStreams(g, segSrv, segCli, 3*time.Second) {
		return vfC13Diff(g, segSrv, segCli, "after the last transfer the relay is not transparent")
	}
	plan.mu.Lock()
	res.fired = plan.fired
	plan.mu.Unlock()
	return ""
}

type vfStreamSeg = struct {
	lit   []byte
	lines []string
}

// vfMatchStream matches out against the segments. It returns (complete, ok): ok=false means out already contradicts the
// expectation (a lost, duplicated, reordered or foreign byte); complete means everything expected has arrived and nothing more.
func vfMatchStream(out []byte, segs []vfStreamSeg) (complete bool, ok bool, at int, why string) {
	pos := 0
	for si, s := range segs {
		if s.lit != nil || len(s.lines) == 0 {
			n := len(s.lit)
			avail := len(out) - pos
			if avail < n {
				if !bytes.Equal(out[pos:], s.lit[:avail]) {
					i := int(vfLCP(out[pos:], s.lit[:avail]))
					return false, false, pos + i, fmt.Sprintf("segment %d: expected %s, got %s", si, vfShort(s.lit[i:], 40), vfShort(out[pos+i:], 40))
				}
				return false, true, len(out), ""
			}
			if !bytes.Equal(out[pos:pos+n], s.lit) {
				i := int(vfLCP(out[pos:pos+n], s.lit))
				return false, false, pos + i, fmt.Sprintf("segment %d: expected %s, got %s", si, vfShort(s.lit[i:], 40), vfShort(out[pos+i:], 40))
			}
			pos += n
			continue
		}
		for _, pfx := range s.lines {
			rest := out[pos:]
			if len(rest) < len(pfx) {
				if !strings.HasPrefix(pfx, string(rest)) {
					return false, false, pos, fmt.Sprintf("segment %d: expected a relay-made %s line, got %s", si, pfx, vfShort(rest, 40))
				}
				return false, true, len(out), ""
			}
			if !bytes.HasPrefix(rest, []byte(pfx)) {
				return false, false, pos, fmt.Sprintf("segment %d: expected a relay-made %s line, got %s", si, pfx, vfShort(rest, 40))
			}
			nl := bytes.IndexByte(rest, '\n')
			if nl < 0 {
				return false, true, len(out), ""
			}
			pos += nl + 1
		}
	}
	if pos < len(out) {
		return false, false, pos, fmt.Sprintf("%d unexpected extra bytes: %s", len(out)-pos, vfShort(out[pos:], 60))
	}
	return true, true, pos, ""
}

func vfWaitStreams(g *vfRelayRig, segSrv, segCli []vfStreamSeg, limit time.Duration) bool {
	deadline := time.Now().Add(limit)
	for {
		c1, ok1, _, _ := vfMatchStream(g.srvIn.bytes(), segSrv)
		c2, ok2, _, _ := vfMatchStream(g.cliOut.bytes(), segCli)
		if !ok1 || !ok2 {
			return false
		}
		if c1 && c2 {
			return true
		}
		if time.Now().After(deadline) {
			return false
		}
		time.Sleep(100 * time.Microsecond)
	}
}

func vfC13Diff(g *vfRelayRig, segSrv, segCli []vfStreamSeg, what string) string {
	_, ok1, at1, why1 := vfMatchStream(g.srvIn.bytes(), segSrv)
	_, ok2, at2, why2 := vfMatchStream(g.cliOut.bytes(), segCli)
	msg := what
	if !ok1 {
		msg += fmt.Sprintf("; towards the server at byte %d: %s", at1, why1)
	}
	if !ok2 {
		msg += fmt.Sprintf("; towards the client at byte %d: %s", at2, why2)
	}
	if ok1 && ok2 {
		msg += fmt.Sprintf("; some expected bytes never arrived (towards the server %d bytes so far, towards the client %d)", g.srvIn.len(), g.cliOut.len())
	}
	return msg
}

// ---------------------------------------------------------------------------------
// generators

var vfYieldSites []string
var vfYieldSitesOnce sync.Once

// vfLoadYieldSites lists the instrumented sites of relay.go and buffer.go (weighted: lines that touch the status, the
// lock, the buffers or the channels appear four times).
func vfLoadYieldSites() []string {
	vfYieldSitesOnce.Do(func() {
		re := regexp.MustCompile(`vfYield\("([^"]+)"\); (.*)`)
		for _, f := range []string{"relay.go", "buffer.go"} {
			b, err := os.ReadFile(f)
			if err != nil {
				continue
			}
			for _, m := range re.FindAllSubmatch(b, -1) {
				site, rest := string(m[1]), string(m[2])
				w := 1
				for _, kw := range []string{"Status", "Lock", "Buffer", "Chan", "status", "addHandshake", "flushHandshake", "<-"} {
					if strings.Contains(rest, kw) {
						w = 4
					}
				}
				for i := 0; i < w; i++ {
					vfYieldSites = append(vfYieldSites, site)
				}
			}
		}
	})
	return vfYieldSites
}

func vfGenSafeBytes(rt *rapid.T, label string, maxLen int) []byte {
	n := rapid.IntRange(0, maxLen).Draw(rt, label+"_n")
	var b bytes.Buffer
	for b.Len() < n {
		switch rapid.IntRange(0, 5).Draw(rt, label+"_k") {
		case 0:
			b.WriteString(rapid.SampledFrom([]string{"#NUM:3\n", "#SUCC:3\n", "#NAME:eJwDAAAAAAE=\n", "#DATA:abcd\n", "#SUCC:4096/8192\n", "\r\n", "\n"}).Draw(rt, label+"_line"))
		case 1:
			b.WriteByte(byte('a' + rapid.IntRange(0, 25).Draw(rt, label+"_c")))
		case 2:
			b.WriteString(rapid.SampledFrom([]string{"ls -l\r", "\x1b[A", "xyz", "0123456789", " ", "#"}).Draw(rt, label+"_tok"))
		default:
			b.WriteByte(byte('A' + rapid.IntRange(0, 25).Draw(rt, label+"_C")))
		}
	}
	out := b.Bytes()
	// never an end marker, a trigger marker or a lone Ctrl-C
	for _, bad := range []string{"#EXIT:", "#FAIL:", "#fail:", "::TRZSZ", "#ACT:", "#CFG:"} {
		out = bytes.ReplaceAll(out, []byte(bad), []byte(strings.Repeat("_", len(bad))))
	}
	return out
}

func vfGenChunksOf(rt *rapid.T, label string, maxChunks, maxLen int) [][]byte {
	n := rapid.IntRange(0, maxChunks).Draw(rt, label+"_nch")
	var out [][]byte
	for i := 0; i < n; i++ {
		b := vfGenSafeBytes(rt, label, maxLen)
		if len(b) == 0 || (len(b) == 1 && b[0] == 0x03) {
			continue
		}
		out = append(out, b)
	}
	return out
}

func vfGenCutsIn(rt *rapid.T, label string, n int) []int {
	k := rapid.IntRange(0, 4).Draw(rt, label+"_k")
	set := map[int]bool{}
	for i := 0; i < k; i++ {
		if n > 1 {
			set[rapid.IntRange(1, n-1).Draw(rt, label+"_c")] = true
		}
	}
	var cuts []int
	for i := 1; i < n; i++ {
		if set[i] {
			cuts = append(cuts, i)
		}
	}
	return cuts
}

func vfGenC13(rt *rapid.T) vfC13Case {
	var cs vfC13Case
	cs.Tmux = rapid.IntRange(0, 3).Draw(rt, "tmux") == 0
	n := rapid.IntRange(1, 3).Draw(rt, "nxfers")
	for i := 0; i < n; i++ {
		var x vfC13Xfer
		x.StandbyC = vfGenChunksOf(rt, "sbc", 3, 30)
		x.StandbyS = vfGenChunksOf(rt, "sbs", 3, 30)
		x.TrigPrefix = []byte(rapid.SampledFrom([]string{"", "\x1b7\x07", "$ trz\r\n\x1b7\x07"}).Draw(rt, "tp"))
		x.TrigSuffix = []byte(rapid.SampledFrom([]string{"\r\n", "\r\n", "", "\r\nmore"}).Draw(rt, "ts"))
		x.Mode = rapid.SampledFrom([]string{"S", "R", "D"}).Draw(rt, "mode")
		x.ID = fmt.Sprintf("%011d%s", 10000000000+int64(rapid.IntRange(0, 1<<30).Draw(rt, "id"))*10+int64(i), rapid.SampledFrom([]string{"00", "20", "00"}).Draw(rt, "role"))
		x.Outcome = rapid.SampledFrom([]string{"confirm", "confirm", "confirm", "cancel", "bad_act", "bad_cfg"}).Draw(rt, "outcome")
		x.ActTail = vfGenSafeBytes(rt, "acttail", 60)
		x.CfgTail = vfGenSafeBytes(rt, "cfgtail", 60)
		// now and then the held traffic is large: pieces of more than half a read buffer (a paste, a burst of output), numbered so
		// that any lost, repeated or overwritten stretch shows
		if big := rapid.SampledFrom([]int{0, 0, 0, 0, 0, 17000, 20000, 33000, 40000}).Draw(rt, "bigtail"); big > 0 {
			var bb bytes.Buffer
			for k := 0; bb.Len() < big; k++ {
				fmt.Fprintf(&bb, "t%06d;", k)
			}
			if rapid.Bool().Draw(rt, "bigtail_side") {
				x.ActTail = append(x.ActTail, bb.Bytes()...)
			} else {
				x.CfgTail = append(x.CfgTail, bb.Bytes()...)
			}
		}
		if rapid.IntRange(0, 5).Draw(rt, "gaveup") == 0 {
			// the client gives up right behind its action (a stop while the server is slow): its fail line is part of what the relay
			// holds, and what the server sends behind its configuration - in the same read or later - must still all arrive, in order
			x.Outcome = "gave_up"
			x.ActTail = append(vfEncodeLine("fail", []byte("Stopped"), "\n"), x.ActTail...)
			if len(x.CfgTail) == 0 || rapid.Bool().Draw(rt, "gaveup_num") {
				x.CfgTail = append([]byte("#NUM:1\n"), x.CfgTail...)
			}
		}
		x.ActCuts = vfGenCutsIn(rt, "actcut", 160+len(x.ActTail))
		if x.Outcome == "gave_up" {
			// the fail line arrives whole, as every end marker does here (a sender writes it in one piece after a quiet period, and
			// the relay looks for it read by read - see DESIGN §8.3)
			al := len(vfEncodeLine("ACT", []byte(vfActJSON), "\n"))
			fl := len(vfEncodeLine("fail", []byte("Stopped"), "\n"))
			var keep []int
			for _, c := range x.ActCuts {
				if c <= al || c >= al+fl {
					keep = append(keep, c)
				}
			}
			x.ActCuts = keep
		}
		x.CfgCuts = vfGenCutsIn(rt, "cfgcut", 100+len(x.CfgTail))
		// now and then the held traffic arrives in very many small reads (a fast typist's paste through a slow terminal, a chatty
		// job): more pieces than any fixed-size queue of "a thousand should do" holds
		if len(x.ActTail) > 30000 && rapid.Bool().Draw(rt, "manypieces_act") {
			x.CfgLate = true
			x.CfgEarly = false
			x.ActCuts = nil
			for c := 200; c < 160+len(x.ActTail); c += 24 {
				x.ActCuts = append(x.ActCuts, c)
			}
		}
		if len(x.CfgTail) > 30000 && rapid.Bool().Draw(rt, "manypieces_cfg") {
			x.CfgCuts = nil
			for c := 150; c < 100+len(x.CfgTail); c += 24 {
				x.CfgCuts = append(x.CfgCuts, c)
			}
		}
		x.CfgEarly = rapid.IntRange(0, 3).Draw(rt, "cfgearly") == 0
		if x.Outcome == "gave_up" && rapid.IntRange(0, 2).Draw(rt, "gaveup_late") != 0 {
			x.CfgLate, x.CfgEarly = true, false
		}
		x.XferC = vfGenChunksOf(rt, "xc", 4, 40)
		x.XferS = vfGenChunksOf(rt, "xs", 4, 40)
		x.End = rapid.SampledFrom([]string{"exit_c", "fail_c", "fail_s", "exit_s", "ctrlc"}).Draw(rt, "end")
		x.GapsUs = rapid.SliceOfN(rapid.SampledFrom([]int{0, 0, 0, 50, 200, 1000}), 1, 4).Draw(rt, "gaps")
		cs.Xfers = append(cs.Xfers, x)
	}
	sites := vfLoadYieldSites()
	if len(sites) > 0 {
		k := rapid.IntRange(0, 4).Draw(rt, "nsteps")
		for i := 0; i < k; i++ {
			cs.Plan = append(cs.Plan, vfYieldStep{
				Site:  sites[rapid.IntRange(0, len(sites)-1).Draw(rt, "site")],
				Hit:   rapid.IntRange(0, 8).Draw(rt, "hit"),
				Delay: rapid.SampledFrom([]int{-1, -5, -20, 100, 1000, 1000, 5000, 20000}).Draw(rt, "delay"),
			})
		}
	}
	return cs
}

func TestVF_C13(t *testing.T) {
	c := vfNewCollector("C13", "TestVF_C13")
	if len(vfLoadYieldSites()) == 0 {
		c.note("the sources are not yield-instrumented: arrival patterns only, no schedule plan")
	}
	vfCheck(t, c, vfGenC13, func(cs vfC13Case) string {
		var res vfC13Res
		msg := vfC13Run(cs, &res)
		if msg != "" && strings.Contains(msg, "some expected bytes never arrived") {
			// nothing wrong was seen, something was merely not seen in time: a timing verdict, reported only if it reproduces
			var r2 vfC13Res
			if m2 := vfC13Run(cs, &r2); m2 == "" {
				c.inconclusive("bytes_late_not_reproduced")
				msg = ""
			}
		}
		labels := []string{fmt.Sprintf("transfers_%d", len(cs.Xfers))}
		for _, x := range cs.Xfers {
			labels = append(labels, "outcome_"+x.Outcome)
			if x.CfgEarly {
				labels = append(labels, "cfg_before_forwarded_act")
			}
		}
		if res.fired > 0 {
			labels = append(labels, "schedule_delay_fired")
			for _, s := range cs.Plan {
				for _, fn := range []string{"relay.go:22", "relay.go:23", "relay.go:24", "relay.go:25", "relay.go:26", "relay.go:27"} {
					if strings.HasPrefix(s.Site, fn) {
						labels = append(labels, "delay_inside_add_or_flush_handshake_buffer")
					}
				}
			}
		}
		if res.straddle {
			labels = append(labels, "chunk_straddles_act_line")
		}
		c.eval(cs, res.handshaking > 0 || res.straddle, labels...)
		return msg
	})
}

var _ = json.Marshal
