//go:build verif

// C01 — end-to-end fidelity (pair-engine volume part; the session-engine part is in zz_verif_e3_test.go).

package trzsz

import (
	"syscall"
	"fmt"
	"os"
	"path/filepath"
	"testing"
	"time"

	"pgregory.net/rapid"
)

// vfTopPath is one top-level source path: it lives in its own parent directory so that two paths may share a base name.
type vfTopPath struct {
	Parent string `json:"parent"`
	Tree   vfTree `json:"tree"` // Files[0].Rel[0] is the base name
}

type vfC01Case struct {
	Cfg   vfPairCfg   `json:"cfg"`
	Paths []vfTopPath `json:"paths"`
	Pre   int         `json:"pre,omitempty"` // with -y: what already sits at the destination under the same names (0 nothing, 1 longer copies, 2 prefixes, 3 other content, 4 identical)
	// AlsoSub: in directory mode, a sub-directory of the first path is named on the command line as well ("tsz -d proj proj/sub"):
	// it arrives twice, inside the first tree and as a top-level entry of its own
	AlsoSub bool `json:"also_sub,omitempty"`
	// StallSaveMs > 0: the one destination file sits on a medium that stops taking data for that long once the first bytes are
	// written (here: a FIFO whose reader pauses) - the save stage stands still for longer than the timeout while the data has
	// arrived and been acknowledged. The receiver is alive and says so (it repeats its acknowledgement): the transfer must succeed.
	StallSaveMs int `json:"stall_save_ms,omitempty"`
	// AckLatencyMs > 0: a long line - everything the receiver writes reaches the sender that much later (in order). The sender's
	// chunk-size adaptation sees acknowledgements that are 0.5-1 s, 1-2 s or more than 2 s old; nothing is lost or damaged.
	AckLatencyMs int `json:"ack_latency_ms,omitempty"`
}

func (p vfTopPath) base() string { return p.Tree.Files[0].Rel[0] }

// vfFreshNames is the reference fresh-name rule: first of name, name.0, name.1, ... that does not exist yet.
func vfFreshNames(existing map[string]bool, names []string, overwrite bool) []string {
	out := make([]string, len(names))
	for i, n := range names {
		if overwrite {
			out[i] = n
			existing[n] = true
			continue
		}
		c := n
		for k := 0; existing[c]; k++ {
			c = fmt.Sprintf("%s.%d", n, k)
		}
		existing[c] = true
		out[i] = c
	}
	return out
}

func vfDedupe(ss []string) []string {
	var out []string
	for _, s := range ss {
		if !containsString(out, s) {
			out = append(out, s)
		}
	}
	return out
}

func vfEqualStrings(a, b []string) bool {
	if len(a) != len(b) {
		return false
	}
	for i := range a {
		if a[i] != b[i] {
			return false
		}
	}
	return true
}

type vfC01Res struct {
	bytes   int64
	files   int
	intact  int
	msgs    int
	alsoSub bool
	stalled bool
}

func vfC01Run(cs vfC01Case, res *vfC01Res) string {
	base, err := os.MkdirTemp("", "vfc01")
	if err != nil {
		return "mkdtemp: " + err.Error()
	}
	defer os.RemoveAll(base)
	dest := filepath.Join(base, "dest")
	os.MkdirAll(dest, 0755)
	var paths, names []string
	for i, p := range cs.Paths {
		parent := filepath.Join(base, "src", fmt.Sprintf("p%d", i))
		os.MkdirAll(parent, 0755)
		if err := p.Tree.materialize(parent); err != nil {
			return "" // name not representable here: out of domain
		}
		paths = append(paths, filepath.Join(parent, p.base()))
		names = append(names, p.base())
		for _, f := range p.Tree.Files {
			if !f.IsDir {
				res.files++
				res.bytes += f.Size
			}
		}
	}
	subParent, subName := "", ""
	if cs.AlsoSub && cs.Cfg.Directory && len(cs.Paths) > 0 {
		top := cs.Paths[0].base()
		for _, f := range cs.Paths[0].Tree.Files {
			if f.IsDir && len(f.Rel) == 2 {
				clash := false
				for _, n := range names {
					if n == f.Rel[1] {
						clash = true
					}
				}
				if !clash {
					subParent, subName = filepath.Join(base, "src", "p0", top), f.Rel[1]
					paths = append(paths, filepath.Join(subParent, subName))
					names = append(names, subName)
				}
				break
			}
		}
	}
	if cs.Pre > 0 && cs.Cfg.Overwrite {
		vfC01PreExisting(cs, base, dest)
	}
	vfCurCase("TestVF_C01", cs)
	r := vfNewPair(cs.Cfg)
	var slow *vfSlowMedium
	if cs.StallSaveMs > 0 && len(names) == 1 {
		var err error
		if slow, err = vfNewSlowMedium(filepath.Join(dest, names[0]), time.Duration(cs.StallSaveMs)*time.Millisecond); err != nil {
			return "fifo: " + err.Error()
		}
	}
	if cs.AckLatencyMs > 0 {
		back := r.s2c
		if !cs.Cfg.Upload {
			back = r.c2s
		}
		back.setLatency(time.Duration(cs.AckLatencyMs) * time.Millisecond)
	}
	r.run(paths, dest, 120*time.Second)
	if slow != nil {
		res.stalled = slow.finish() // the FIFO becomes a regular file holding what was written into it
	}
	res.msgs = len(r.c2s.messages()) + len(r.s2c.messages())
	// (2) fault-free and cooperative: both sides must report success
	if r.hung {
		return "fault-free transfer did not finish within the watchdog: " + r.describe()
	}
	if r.clientErr != nil || r.serverErr != nil {
		return "fault-free transfer failed: " + r.describe()
	}
	// (1) destination == source under the predicted names
	want := vfFreshNames(map[string]bool{}, names, cs.Cfg.Overwrite)
	for i := range cs.Paths {
		parent := filepath.Join(base, "src", fmt.Sprintf("p%d", i))
		if m := vfCompareSubtree(parent, names[i], dest, want[i]); m != "" {
			return m + " (" + r.describe() + ")"
		}
		res.intact++
	}
	if subName != "" {
		if m := vfCompareSubtree(subParent, subName, dest, want[len(want)-1]); m != "" {
			return "the sub-directory that was also named by itself: " + m + " (" + r.describe() + ")"
		}
		res.alsoSub = true
	}
	// nothing else was created
	ents, _ := os.ReadDir(dest)
	if len(ents) != len(vfDedupe(want)) {
		var got []string
		for _, e := range ents {
			got = append(got, e.Name())
		}
		return fmt.Sprintf("destination has entries %q, expected exactly %q", got, vfDedupe(want))
	}
	// (3) names shown to the user == names written
	recvNames, sendNames := r.serverNames, r.clientNames
	if !cs.Cfg.Upload {
		recvNames, sendNames = r.clientNames, r.serverNames
	}
	if !vfEqualStrings(recvNames, vfDedupe(want)) {
		return fmt.Sprintf("receiver reported names %q, names written are %q", recvNames, vfDedupe(want))
	}
	if !vfEqualStrings(sendNames, vfDedupe(want)) {
		return fmt.Sprintf("sender was told names %q, names written are %q", sendNames, vfDedupe(want))
	}
	n, shown, ok := vfParseSaved(r.serverMsg)
	if !ok || n != len(shown) || !vfEqualStrings(shown, vfDedupe(want)) {
		return fmt.Sprintf("final message %q does not list exactly the written names %q", r.serverMsg, vfDedupe(want))
	}
	return ""
}

// vfC01PreExisting puts stale versions of the incoming regular files at the destination (overwrite mode only).
func vfC01PreExisting(cs vfC01Case, base, dest string) {
	for i, p := range cs.Paths {
		parent := filepath.Join(base, "src", fmt.Sprintf("p%d", i))
		for _, f := range p.Tree.Files {
			if f.IsDir {
				continue
			}
			src, err := os.ReadFile(filepath.Join(append([]string{parent}, f.Rel...)...))
			if err != nil {
				continue
			}
			var old []byte
			switch cs.Pre {
			case 1:
				old = append(append([]byte(nil), src...), []byte("STALE TAIL OF A LONGER OLD VERSION")...)
			case 2:
				old = append([]byte(nil), src[:len(src)/2]...)
			case 3:
				old = vfContent(vfKindText, 99, int64(len(src))+7)
			default:
				old = src
			}
			dp := filepath.Join(append([]string{dest}, f.Rel...)...)
			os.MkdirAll(filepath.Dir(dp), 0755)
			os.WriteFile(dp, old, 0644)
		}
	}
}

func vfGenSeg(rt *rapid.T, label string, totalBytes int64) vfSeg {
	var s vfSeg
	switch rapid.IntRange(0, 7).Draw(rt, label+"_mode") {
	case 7:
		s.Mode = 5
		s.Size = rapid.SampledFrom([]int{7, 64, 1000, 4096, 1 << 20}).Draw(rt, label+"_csize")
	case 0, 1:
		s.Mode = 0
	case 2:
		s.Mode = 1
		s.Size = rapid.SampledFrom([]int{2, 3, 7, 31, 32, 33, 255, 1023, 1024, 1025, 4096, 32768}).Draw(rt, label+"_size")
	case 3:
		s.Mode = 2
		s.Size = rapid.SampledFrom([]int{3, 16, 100, 5000}).Draw(rt, label+"_rsize")
		s.Seed = rapid.Uint64Range(1, 1<<30).Draw(rt, label+"_seed")
	case 4:
		s.Mode = 3
	default:
		s.Mode = 4
	}
	// tiny reads on a big transfer only cost time
	if totalBytes > 200000 {
		if s.Mode == 4 || (s.Mode != 0 && s.Mode != 3 && s.Size < 1000) {
			s.Mode, s.Size = 1, 4096+int(totalBytes%13)
		}
	} else if totalBytes > 20000 {
		if s.Mode == 4 || (s.Mode != 0 && s.Mode != 3 && s.Size < 32) {
			s.Mode, s.Size = 1, 100+int(totalBytes%7)
		}
	}
	return s
}

func vfGenPairCfg(rt *rapid.T, totalBytes int64) vfPairCfg {
	var c vfPairCfg
	c.Upload = rapid.Bool().Draw(rt, "upload")
	c.Binary = rapid.Bool().Draw(rt, "binary")
	c.Escape = rapid.IntRange(0, 2).Draw(rt, "escape") == 0
	c.Compress = rapid.IntRange(0, 2).Draw(rt, "compress")
	c.Bufsize = rapid.SampledFrom([]int64{0, 1024, 2048, 4096, 65536, 1 << 20, 10 << 20}).Draw(rt, "bufsize")
	c.Overwrite = rapid.IntRange(0, 2).Draw(rt, "overwrite") == 0
	c.Directory = rapid.Bool().Draw(rt, "directory")
	c.Protocol = rapid.SampledFrom([]int{1, 2, 3, 4, 4}).Draw(rt, "protocol")
	c.WinServer = rapid.IntRange(0, 5).Draw(rt, "winserver") == 0
	c.TmuxJunk = rapid.IntRange(0, 7).Draw(rt, "tmuxjunk") == 0
	c.Progress = rapid.IntRange(0, 4).Draw(rt, "progress") == 0
	c.Timeout = 20
	c.SegC2S = vfGenSeg(rt, "c2s", totalBytes)
	c.SegS2C = vfGenSeg(rt, "s2c", totalBytes)
	return c
}

func vfGenC01(rt *rapid.T) vfC01Case {
	var cs vfC01Case
	np := rapid.IntRange(1, 4).Draw(rt, "npaths")
	dirMode := rapid.Bool().Draw(rt, "dirmode")
	sameBase := np >= 2 && rapid.IntRange(0, 3).Draw(rt, "samebase") == 0
	big := rapid.IntRange(0, 3).Draw(rt, "bigfiles") == 0
	var total int64
	var first string
	for i := 0; i < np; i++ {
		name := vfGenFsName(rt, "top")
		if i == 0 {
			first = name
		}
		if sameBase && i == np-1 {
			name = first
		}
		var tp vfTopPath
		if dirMode && rapid.IntRange(0, 1).Draw(rt, "topisdir") == 0 {
			vfGenDir(rt, &tp.Tree.Files, []string{name}, 1, rapid.IntRange(1, 3).Draw(rt, "depth"), rapid.IntRange(0, 4).Draw(rt, "fan"), big)
		} else {
			tp.Tree.Files = []vfFile{vfGenFile(rt, []string{name}, "topf", big)}
		}
		for _, f := range tp.Tree.Files {
			total += f.Size
		}
		cs.Paths = append(cs.Paths, tp)
	}
	cs.Cfg = vfGenPairCfg(rt, total)
	cs.Cfg.Directory = dirMode
	cs.AlsoSub = dirMode && rapid.IntRange(0, 3).Draw(rt, "alsosub") == 0
	if cs.Cfg.Overwrite && rapid.IntRange(0, 2).Draw(rt, "preexisting") == 0 {
		cs.Pre = rapid.IntRange(1, 4).Draw(rt, "prekind")
	}
	if rapid.IntRange(0, 9).Draw(rt, "resume_heavy") == 0 {
		// a resumed transfer of a file large enough for the compression probe (>= 128 KiB still to send), default compression
		cs.Cfg.Overwrite, cs.Pre = true, 2
		cs.Cfg.Protocol = rapid.SampledFrom([]int{3, 4}).Draw(rt, "resume_proto")
		cs.Cfg.Compress = 0
		cs.Cfg.WinServer = false
		f := &cs.Paths[0].Tree.Files[len(cs.Paths[0].Tree.Files)-1]
		if !f.IsDir {
			f.Size = rapid.SampledFrom([]int64{300000, 524288, 1000003}).Draw(rt, "resume_size")
			f.Kind = rapid.SampledFrom([]int{vfKindNoise, vfKindText, vfKindHeadCompressible}).Draw(rt, "resume_kind")
		}
		cs.Cfg.SegC2S, cs.Cfg.SegS2C = vfSeg{}, vfSeg{}
	}
	if dirMode && rapid.IntRange(0, 9).Draw(rt, "archive_heavy") == 0 {
		// a directory that travels as one archive stream of a few hundred KiB with default compression (the compression probe
		// looks at streams of 128 KiB and more; an archive stream has no file behind it)
		cs.Cfg.Overwrite, cs.Pre = false, 0
		cs.Cfg.Protocol = 4
		cs.Cfg.Compress = 0
		cs.Cfg.WinServer = false
		for i := range cs.Paths {
			fs := cs.Paths[i].Tree.Files
			if len(fs) > 1 || fs[0].IsDir {
				fs = append(fs, vfFile{Rel: []string{fs[0].Rel[0], "archive-heavy.bin"},
					Size: rapid.SampledFrom([]int64{131072, 140000, 300000, 524288}).Draw(rt, "archive_size"),
					Kind: rapid.SampledFrom([]int{vfKindNoise, vfKindText, vfKindHeadCompressible}).Draw(rt, "archive_kind"), Seed: 77})
				cs.Paths[i].Tree.Files = fs
				break
			}
		}
		cs.Cfg.SegC2S, cs.Cfg.SegS2C = vfSeg{}, vfSeg{}
	}
	if rapid.IntRange(0, 29).Draw(rt, "slow_saver") == 17 {
		// one file larger than a pipe buffer but small enough for the receiver's queues, -y at protocol 2 (the existing "file" is
		// truncated and rewritten, never read), a short timeout, a medium that pauses for longer than that
		cs.Paths = cs.Paths[:1]
		cs.Paths[0].Tree.Files = []vfFile{{Rel: []string{cs.Paths[0].base()}, Size: rapid.Int64Range(100000, 200000).Draw(rt, "stall_size"),
			Kind: rapid.SampledFrom([]int{vfKindNoise, vfKindText}).Draw(rt, "stall_kind"), Seed: 5}}
		cs.AlsoSub, cs.Pre = false, 0
		cs.Cfg.Overwrite, cs.Cfg.Protocol, cs.Cfg.Timeout = true, 2, 2
		cs.Cfg.Bufsize = rapid.SampledFrom([]int64{0, 65536, 1048576}).Draw(rt, "stall_bufsize")
		cs.Cfg.SegC2S, cs.Cfg.SegS2C = vfSeg{}, vfSeg{}
		cs.StallSaveMs = 3300
	}
	{
		// a few files and a few dozen chunks at most: every file costs several round trips, and with a window of a few chunks per
		// round trip anything longer only costs time
		nfiles, bytes := 0, int64(0)
		for _, p := range cs.Paths {
			for _, f := range p.Tree.Files {
				nfiles++
				bytes += f.Size
			}
		}
		if cs.StallSaveMs == 0 && nfiles <= 3 && bytes > 20000 && bytes < 400000 && (cs.Cfg.Bufsize == 0 || cs.Cfg.Bufsize >= 65536) && cs.Cfg.Protocol >= 2 &&
			!cs.AlsoSub && rapid.IntRange(0, 5).Draw(rt, "long_line") == 3 {
			cs.AckLatencyMs = rapid.SampledFrom([]int{600, 750, 1300, 2200}).Draw(rt, "ack_latency")
			cs.Cfg.Timeout = 20
		}
	}
	// duplicate base names with -y are refused by design
	if cs.Cfg.Overwrite {
		seen := map[string]bool{}
		for i := range cs.Paths {
			for seen[cs.Paths[i].base()] {
				old := cs.Paths[i].base()
				for j := range cs.Paths[i].Tree.Files {
					cs.Paths[i].Tree.Files[j].Rel[0] = old + "_"
				}
			}
			seen[cs.Paths[i].base()] = true
		}
	}
	return cs
}

func vfPairLabels(c vfPairCfg) []string {
	l := []string{"download"}
	if c.Upload {
		l[0] = "upload"
	}
	l = append(l, fmt.Sprintf("protocol_%d", c.Protocol))
	if c.Binary {
		l = append(l, "binary_requested")
	} else {
		l = append(l, "base64")
	}
	if c.Escape {
		l = append(l, "escape_all")
	}
	l = append(l, []string{"compress_auto", "compress_yes", "compress_no"}[c.Compress])
	if c.Overwrite {
		l = append(l, "overwrite")
	}
	if c.Directory {
		l = append(l, "directory_mode")
	}
	if c.WinServer {
		l = append(l, "windows_framing")
	}
	if c.TmuxJunk {
		l = append(l, "tmux_junk_mode")
	}
	if c.Progress {
		l = append(l, "progress_attached")
	}
	l = append(l, fmt.Sprintf("bufsize_%d", c.Bufsize))
	l = append(l, fmt.Sprintf("seg_c2s_%d", c.SegC2S.Mode), fmt.Sprintf("seg_s2c_%d", c.SegS2C.Mode))
	return l
}

func TestVF_C01(t *testing.T) {
	c := vfNewCollector("C01", "TestVF_C01")
	knownF2 := vfKnown("F2")
	vfCheck(t, c, vfGenC01, func(cs vfC01Case) string {
		_ = knownF2
		var res vfC01Res
		msg := vfC01Run(cs, &res)
		labels := vfPairLabels(cs.Cfg)
		if len(cs.Paths) > 1 {
			labels = append(labels, "several_paths")
		}
		names := map[string]bool{}
		for _, p := range cs.Paths {
			if names[p.base()] {
				labels = append(labels, "same_base_name_twice")
			}
			names[p.base()] = true
			if len(p.Tree.Files) > 1 {
				labels = append(labels, "nested_directory")
			}
		}
		if res.bytes > 200000 {
			labels = append(labels, "payload>200k")
		}
		if cs.Pre > 0 {
			labels = append(labels, fmt.Sprintf("overwrite_over_existing_%d", cs.Pre))
		}
		def := vfPairCfg{Timeout: 20, Protocol: 4}
		nondefault := cs.Cfg != def
		if res.alsoSub {
			labels = append(labels, "sub_directory_also_named_by_itself")
		}
		if cs.AckLatencyMs > 0 {
			labels = append(labels, fmt.Sprintf("acknowledgements_%dms_late", cs.AckLatencyMs))
		}
		if res.stalled {
			labels = append(labels, "save_stage_stalled_beyond_the_timeout")
		}
		c.eval(cs, res.intact > 0 && res.bytes > 0 && nondefault, labels...)
		return msg
	})
}


// vfSlowMedium stands in for a destination that stops taking data for a while: a FIFO at the destination path whose reader takes
// the first bytes, pauses, and then takes the rest. finish turns it into a regular file with everything that was written.
type vfSlowMedium struct {
	path  string
	f     *os.File
	stop  chan struct{}
	done  chan struct{}
	data  []byte
	stall time.Duration
	hit   bool
}

func vfNewSlowMedium(path string, stall time.Duration) (*vfSlowMedium, error) {
	if err := syscall.Mkfifo(path, 0644); err != nil {
		return nil, err
	}
	fd, err := syscall.Open(path, syscall.O_RDWR|syscall.O_NONBLOCK, 0)
	if err != nil {
		return nil, err
	}
	m := &vfSlowMedium{path: path, f: os.NewFile(uintptr(fd), path), stop: make(chan struct{}), done: make(chan struct{}), stall: stall}
	go func() {
		defer close(m.done)
		buf := make([]byte, 32*1024)
		stopping := false
		for {
			_ = m.f.SetReadDeadline(time.Now().Add(100 * time.Millisecond))
			n, err := m.f.Read(buf)
			if n > 0 {
				m.data = append(m.data, buf[:n]...)
				if !m.hit {
					m.hit = true
					time.Sleep(m.stall)
				}
				continue
			}
			if err != nil && !os.IsTimeout(err) {
				return
			}
			if stopping {
				return // nothing came for 100 ms after the transfer had ended
			}
			select {
			case <-m.stop:
				stopping = true
			default:
			}
		}
	}()
	return m, nil
}

func (m *vfSlowMedium) finish() bool {
	close(m.stop)
	<-m.done
	m.f.Close()
	os.Remove(m.path)
	_ = os.WriteFile(m.path, m.data, 0644)
	return m.hit
}
