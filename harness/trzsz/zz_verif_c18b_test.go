//go:build verif

package trzsz

import (
	"fmt"
	"path/filepath"
	"strings"
	"sync"
	"testing"
	"time"
)

// C18, the moment "after a message, shortly after the server was slow to answer": an upload whose server acknowledges one chunk more
// than two seconds late. The sender then reduces its chunk size, and the buffers it had already encoded and queued go out in
// several pieces each. The pause begins right behind the N-th file data line written after the late acknowledgement came in - set
// from inside that very write, so that the sender finds the transfer paused when the write returns. From then until the resume
// the paused side may write keep-alive lines only: not one more piece of file data, whether or not it belongs to a buffer that
// was already begun.

type vfC18LateCase struct {
	Bufsize  int64 `json:"bufsize"`
	Binary   bool  `json:"binary,omitempty"`
	LateAck  int   `json:"late_ack"`  // which data acknowledgement (counted from the first) is held back
	LateMs   int   `json:"late_ms"`   // for how long
	AfterN   int   `json:"after_n"`   // the pause begins behind the N-th file data line after the late acknowledgement was released
	PauseMs  int   `json:"pause_ms"`
	Protocol int   `json:"protocol"`
}

type vfC18LateRes struct {
	paused   bool
	cut      bool // a file data line shorter than its predecessors was seen after the late acknowledgement (a buffer was cut)
	outcome  string
	dataSeen int
}

func vfC18LateRun(cs vfC18LateCase, res *vfC18LateRes) string {
	sc := vfScenario{Name: "upload-late-ack", Cfg: vfPairCfg{Upload: true, Protocol: cs.Protocol, Binary: cs.Binary, Bufsize: cs.Bufsize, Timeout: 6}, Files: 1, Size: cs.Bufsize * 60}
	e, err := vfScenSetup(sc)
	if err != nil {
		return "setup: " + err.Error()
	}
	defer e.cleanup()
	vfCurCase("TestVF_C18LateAck", cs)
	sess := vfNewSession(sc.Sess)
	defer sess.close()
	sess.c2s.throttle = 2 * time.Millisecond
	var mu sync.Mutex
	var from, to time.Time
	acks, released, dataAfter := 0, false, 0
	var heldOnce, pauseOnce sync.Once
	var wg sync.WaitGroup
	fresh := func(lk *vfLink, m vfMsg) vfMsg {
		if all := lk.messages(); m.Idx < len(all) {
			return all[m.Idx]
		}
		return m
	}
	sess.s2c.onMsg = func(m vfMsg, before bool) {
		if !before {
			return
		}
		m = fresh(sess.s2c, m)
		if m.Typ != "SUCC" || !strings.Contains(m.Txt, "/") {
			return
		}
		mu.Lock()
		acks++
		hold := acks == cs.LateAck
		mu.Unlock()
		if hold {
			heldOnce.Do(func() {
				time.Sleep(time.Duration(cs.LateMs) * time.Millisecond) // the server's answer to this chunk is late
				mu.Lock()
				released = true
				mu.Unlock()
			})
		}
	}
	sess.c2s.onMsg = func(m vfMsg, before bool) {
		if before {
			return
		}
		m = fresh(sess.c2s, m)
		if m.Typ != "DATA" || strings.HasPrefix(m.Txt, "#DATA:=") {
			return
		}
		mu.Lock()
		rel := released
		if rel {
			dataAfter++
		}
		n := dataAfter
		mu.Unlock()
		if !rel || n != cs.AfterN {
			return
		}
		pauseOnce.Do(func() {
			t := sess.filter.transfer.Load()
			if t == nil {
				return
			}
			// inside the sender's own write of that line: when the write returns the transfer is paused
			t.pauseTransferringFiles()
			mu.Lock()
			from = time.Now()
			mu.Unlock()
			wg.Add(1)
			go func() {
				defer wg.Done()
				time.Sleep(time.Duration(cs.PauseMs) * time.Millisecond)
				mu.Lock()
				to = time.Now()
				mu.Unlock()
				t.resumeTransferringFiles()
			}()
		})
	}
	run, err := vfStartTransfer(sess, sc.Cfg, e.paths, e.dest)
	if err != nil {
		return "cannot start: " + err.Error()
	}
	run.finish(60 * time.Second)
	wg.Wait()
	mu.Lock()
	f, tt := from, to
	mu.Unlock()
	res.paused = !f.IsZero() && !tt.IsZero()
	if !run.serverEnded || !run.clientIdle {
		return fmt.Sprintf("a side was still running %v after a late acknowledgement and a pause of %d ms: %s", run.wall, cs.PauseMs, run.describe())
	}
	same, _ := e.identicalFiles(func(rel string) string { return rel })
	if run.serverSuccess() || run.clientSuccess() {
		res.outcome = "success"
		if same != len(e.fileRel) {
			return fmt.Sprintf("a side reported success but only %d of %d files are complete and identical: %s", same, len(e.fileRel), run.describe())
		}
	} else {
		res.outcome = "error"
	}
	// every acknowledgement came inside the timeout and the pause was far shorter than it
	if !(run.serverSuccess() && run.clientSuccess()) {
		return fmt.Sprintf("an acknowledgement %d ms late and a pause of %d ms (timeout 6 s) made the transfer fail: %s", cs.LateMs, cs.PauseMs, run.describe())
	}
	if !res.paused {
		return "" // the transfer was over before the chosen line: nothing to look at
	}
	prevLen := 0
	var inPause []string
	for _, m := range sess.c2s.messages() {
		if m.Typ != "DATA" {
			continue
		}
		if strings.HasPrefix(m.Txt, "#DATA:=") {
			continue
		}
		res.dataSeen++
		if prevLen > 0 && m.Len < prevLen*3/4 {
			res.cut = true
		}
		prevLen = m.Len
		if m.At.After(f) && m.At.Before(tt) {
			inPause = append(inPause, fmt.Sprintf("%q(%d bytes, +%dms)", vfTrunc(m.Txt, 12), m.Len, m.At.Sub(f).Milliseconds()))
		}
	}
	if len(inPause) > 0 {
		return fmt.Sprintf("the pause began inside the write of file data line %d after a late acknowledgement; while paused (%d ms) the client still wrote file data: %s",
			cs.AfterN, cs.PauseMs, strings.Join(inPause, " "))
	}
	return ""
}

func TestVF_C18LateAck(t *testing.T) {
	c := vfNewCollector("C18", "TestVF_C18LateAck")
	defer vfFlushAll()
	eval := func(cs vfC18LateCase, res *vfC18LateRes) {
		labels := []string{"late_ack_then_pause", "outcome_" + res.outcome}
		if res.cut {
			labels = append(labels, "queued_buffers_were_cut_after_the_late_ack")
		}
		if !res.paused {
			labels = append(labels, "event_never_reached")
		}
		c.eval(cs, res.paused && res.cut, labels...)
	}
	for _, f := range vfCaseFilesFor(c.Test) {
		var cs vfC18LateCase
		if err := jsonUnmarshal(f.Case, &cs); err != nil {
			t.Errorf("bad case file %s: %v", f.Path, err)
			continue
		}
		var res vfC18LateRes
		msg := vfGuard(func() string { return vfC18LateRun(cs, &res) })
		eval(cs, &res)
		if msg != "" {
			c.violation("regress:"+filepath.Base(f.Path), cs, msg)
			t.Errorf("case file %s fails: %s", f.Path, msg)
		}
	}
	if vfReplayOnly() || t.Failed() {
		return
	}
	shard, shards := vfShard()
	long := vfEnvInt("VERIF_C18_LONG", 0) == 1
	bufs := []int64{8192}
	protos := []int{4}
	maxN := 10
	if long {
		bufs = []int64{4096, 8192, 32768}
		protos = []int{3, 4}
		maxN = 16
	}
	i := 0
	for _, b := range bufs {
		for _, p := range protos {
			for _, binary := range []bool{false, true} {
				if binary && !long {
					continue
				}
				for n := 1; n <= maxN; n++ {
					i++
					if i%shards != shard {
						continue
					}
					cs := vfC18LateCase{Bufsize: b, Binary: binary, LateAck: 14, LateMs: 2300, AfterN: n, PauseMs: 700, Protocol: p}
					var res vfC18LateRes
					m := vfGuard(func() string { return vfC18LateRun(cs, &res) })
					if m != "" && (strings.Contains(m, "still running") || strings.Contains(m, "made the transfer fail")) {
						// verdicts that rest on timeouts of real processes must come back
						var r2 vfC18LateRes
						if m2 := vfGuard(func() string { return vfC18LateRun(cs, &r2) }); m2 == "" {
							c.inconclusive("timing_not_reproduced")
							m = ""
						}
					}
					eval(cs, &res)
					if m != "" {
						c.violation("enumerated", cs, m)
						t.Errorf("%s", m)
						return
					}
				}
			}
		}
	}
}
