//go:build verif

// C09 — received files can only be created inside the chosen destination directory (pair engine, hostile sender:
// the real sender code is handed a poisoned source list, so NAME messages and archive headers carry hostile names).

package trzsz

import (
	"fmt"
	"os"
	"path/filepath"
	"strings"
	"testing"
	"time"

	"pgregory.net/rapid"
)

type vfC09Case struct {
	Cfg     vfPairCfg  `json:"cfg"`
	Rel     [][]string `json:"rel"`      // hostile relative paths, one per sent entry (entry 0 is the top-level one)
	IsDir   []bool     `json:"isdir"`    // entry kinds
	Abs     bool       `json:"abs"`      // element 0 of entry Target is replaced by an absolute path into the sandbox
	Target  int        `json:"target"`   // which entry gets the absolute path
	Delete  bool       `json:"delete"`   // stop-and-delete after the transfer (deletion is in scope too)
	Escapes bool       `json:"escapes"`  // computed: some name resolves outside the destination under plain Join
	Spell   int        `json:"spell,omitempty"`     // how the user spelled the destination: 0 clean, 1 trailing separator, 2 "/./" inside, 3 "x/../" inside, 4 doubled separator
	Empty   bool       `json:"empty_dest,omitempty"` // the destination starts out empty
}

const vfDestDepth = 4 // the destination sits this many levels below the sandbox root

func vfC09Run(cs vfC09Case) string {
	base, err := os.MkdirTemp("", "vfc09")
	if err != nil {
		return "mkdtemp: " + err.Error()
	}
	defer os.RemoveAll(base)
	// sandbox: root/l1/l2/l3/dest, canaries on every level and in sibling directories
	root := filepath.Join(base, "root")
	dest := filepath.Join(root, "l1", "l2", "l3", "dest")
	os.MkdirAll(dest, 0755)
	for _, d := range []string{"", "l1", "l1/l2", "l1/l2/l3", "l1/sib", "abs", "l1/l2/l3/dest2"} {
		os.MkdirAll(filepath.Join(root, d), 0755)
		os.WriteFile(filepath.Join(root, d, "canary"), []byte("canary "+d), 0644)
		os.WriteFile(filepath.Join(root, d, "x"), []byte("x "+d), 0644)
		os.MkdirAll(filepath.Join(root, d, "a"), 0755)
		os.WriteFile(filepath.Join(root, d, "a", "x"), []byte("a/x "+d), 0644)
	}
	if !cs.Empty {
		os.WriteFile(filepath.Join(dest, "inside"), []byte("inside"), 0644)
	}
	os.Remove(filepath.Join(dest, "canary"))
	// the same directory, spelled the way a user or a configuration file may spell it
	sep := string(os.PathSeparator)
	spelled := dest
	switch cs.Spell {
	case 1:
		spelled = dest + sep
	case 2:
		spelled = filepath.Dir(dest) + sep + "." + sep + "dest"
	case 3:
		spelled = filepath.Dir(dest) + sep + "dest2" + sep + ".." + sep + "dest"
	case 4:
		spelled = filepath.Dir(dest) + sep + sep + "dest"
	}
	// real files to send
	src := filepath.Join(base, "src", "top")
	os.MkdirAll(src, 0755)
	var paths []string
	if cs.Cfg.Directory {
		for i := 1; i < len(cs.Rel); i++ {
			if cs.IsDir[i] {
				os.MkdirAll(filepath.Join(src, fmt.Sprintf("e%d", i)), 0755)
			} else {
				os.WriteFile(filepath.Join(src, fmt.Sprintf("e%d", i)), []byte(fmt.Sprintf("PAYLOAD %d", i)), 0644)
			}
		}
		paths = []string{src}
	} else {
		for i := range cs.Rel {
			p := filepath.Join(base, "src", fmt.Sprintf("f%d", i))
			os.WriteFile(p, []byte(fmt.Sprintf("PAYLOAD %d", i)), 0644)
			paths = append(paths, p)
		}
	}
	rels := make([][]string, len(cs.Rel))
	for i := range cs.Rel {
		rels[i] = append([]string(nil), cs.Rel[i]...)
	}
	if cs.Abs && cs.Target < len(rels) && len(rels[cs.Target]) > 0 {
		rels[cs.Target][0] = filepath.Join(root, "abs") // an absolute location, inside the sandbox so that it can be watched
	}
	old := time.Now().Add(-24 * time.Hour)
	filepath.Walk(root, func(p string, info os.FileInfo, err error) error {
		if err == nil && !strings.HasPrefix(p, dest+string(os.PathSeparator)) && p != dest {
			os.Chtimes(p, old, old)
		}
		return nil
	})
	snap := func() (map[string]vfEntry, error) {
		m, err := vfSnapshot(root)
		if err != nil {
			return nil, err
		}
		rel, _ := filepath.Rel(root, dest)
		for k := range m {
			if k == rel || strings.HasPrefix(k, rel+string(os.PathSeparator)) {
				delete(m, k)
			}
		}
		return m, nil
	}
	before, err := snap()
	if err != nil {
		return "snapshot: " + err.Error()
	}
	vfCurCase("TestVF_C09", cs)
	r := vfNewPair(cs.Cfg)
	r.propagate = true
	r.hostile = func(files []*sourceFile) []*sourceFile {
		// keep AbsPath (real files), replace what the peer is told
		for i, f := range files {
			if i < len(rels) {
				f.RelPath = rels[i]
			}
		}
		return files
	}
	r.run(paths, spelled, 60*time.Second)
	if cs.Delete {
		recv := r.server
		if !cs.Cfg.Upload {
			recv = r.client
		}
		recv.deleteCreatedFiles()
	}
	after, err := snap()
	if err != nil {
		return "snapshot: " + err.Error()
	}
	if d := vfDiffSnap(before, after, true); d != "" {
		return fmt.Sprintf("something outside the destination changed: %s (names %q; %s)", d, rels, r.describe())
	}
	if st, err := os.Stat(dest); err != nil || !st.IsDir() {
		return fmt.Sprintf("the destination directory itself (given as %q) is gone after the transfer: %v (names %q; %s)", spelled, err, rels, r.describe())
	}
	if r.hung {
		return "transfer did not finish: " + r.describe()
	}
	return ""
}

var vfHostileElems = []string{"..", "..", "..", ".", "", "a", "x", "canary", "dest2", "sib", "l1", "../x", "a/../../x", "../../canary", "/", "a/b", "..\\x", "...", ".. ", "inside",
	// elements that only turn into a parent step once they are cleaned
	"./..", ".//..", "x/../..", "./../x", "a/./../..", "./", "../", "a/.", "..//x", "./../../canary"}

var vfSubtleElems = []string{"a", "x", "canary", "sib", "l1", "dest2", "inside", "./..", ".//..", "x/../..", "a/./../..", "./", "...", ".. ", " ..", "..\\x", "..\x00", "..\t", "\u2025", ". .", "%2e%2e", "..;"}

func vfCountUp(elems []string) int {
	n := 0
	for _, e := range elems {
		for _, p := range strings.Split(e, "/") {
			if p == ".." {
				n++
			}
		}
	}
	return n
}

func vfGenC09(rt *rapid.T) vfC09Case {
	var cs vfC09Case
	cs.Cfg = vfGenPairCfg(rt, 100)
	cs.Cfg.Progress = false
	cs.Cfg.Directory = rapid.IntRange(0, 2).Draw(rt, "dirmode") != 0
	// subtle: names that a check looking only for "..", separators and empty elements could let through, among plain ones (most
	// of a hostile list is refused at the first name, which ends the transfer before anything else is looked at)
	subtle := rapid.IntRange(0, 2).Draw(rt, "subtle") != 0
	n := rapid.IntRange(1, 4).Draw(rt, "nentries")
	for i := 0; i < n; i++ {
		var rel []string
		k := rapid.IntRange(1, 5).Draw(rt, "nelems")
		if !cs.Cfg.Directory {
			k = 1 // plain names carry one element (the base name as the peer states it)
		}
		for j := 0; j < k; j++ {
			switch {
			case subtle && (i == 0 || j == 0) && cs.Cfg.Directory:
				// the transfer has to get past its first names before a later one can do harm
				rel = append(rel, rapid.SampledFrom([]string{"top", "top", "a", "x", "sib"}).Draw(rt, "elem_plain"))
			case subtle:
				rel = append(rel, rapid.SampledFrom(vfSubtleElems).Draw(rt, "elem_subtle"))
			default:
				rel = append(rel, rapid.SampledFrom(vfHostileElems).Draw(rt, "elem"))
			}
		}
		if subtle && cs.Cfg.Directory && i > 0 && rapid.Bool().Draw(rt, "climb") {
			// one plain name, the same odd element one to three times, then a name that exists above the destination
			odd := rapid.SampledFrom(append([]string{"..", ".."}, vfSubtleElems[7:]...)).Draw(rt, "odd")
			rel = []string{rapid.SampledFrom([]string{"top", "a", "x"}).Draw(rt, "climb_first")}
			for m := rapid.IntRange(1, 3).Draw(rt, "climb_n"); m > 0; m-- {
				rel = append(rel, odd)
			}
			// sometimes through further directories that do not exist yet (what is made for the intermediate levels counts too)
			for m := rapid.IntRange(0, 2).Draw(rt, "climb_mid"); m > 0; m-- {
				rel = append(rel, rapid.SampledFrom([]string{"planted", "sub", "newdir"}).Draw(rt, "climb_midname"))
			}
			rel = append(rel, rapid.SampledFrom([]string{"canary", "x", "a", "sib", "l1", "f.txt"}).Draw(rt, "climb_target"))
		}
		if rapid.IntRange(0, 30).Draw(rt, "verylong") == 0 {
			rel[len(rel)-1] = strings.Repeat("L", 4096)
		}
		// never climb above the sandbox root: the destination is vfDestDepth levels deep
		for vfCountUp(rel) > vfDestDepth-1 {
			for j := range rel {
				if strings.Contains(rel[j], "..") {
					rel[j] = "a"
					break
				}
			}
		}
		cs.Rel = append(cs.Rel, rel)
		cs.IsDir = append(cs.IsDir, i == 0 && cs.Cfg.Directory || (cs.Cfg.Directory && rapid.IntRange(0, 3).Draw(rt, "isdir") == 0))
	}
	if cs.Cfg.Directory {
		cs.IsDir[0] = true
	}
	cs.Abs = rapid.IntRange(0, 5).Draw(rt, "abs") == 0
	cs.Target = rapid.IntRange(0, n-1).Draw(rt, "target")
	cs.Delete = rapid.IntRange(0, 2).Draw(rt, "delete") == 0
	cs.Spell = rapid.SampledFrom([]int{0, 0, 0, 1, 2, 3, 4}).Draw(rt, "spell")
	cs.Empty = rapid.IntRange(0, 2).Draw(rt, "emptydest") == 0
	// does a plain Join leave the destination?
	for i, rel := range cs.Rel {
		j := filepath.Join(append([]string{"/d/e/s/t"}, rel...)...)
		if !strings.HasPrefix(j+"/", "/d/e/s/t/") || (cs.Abs && i == cs.Target) {
			cs.Escapes = true
		}
	}
	return cs
}

func TestVF_C09(t *testing.T) {
	c := vfNewCollector("C09", "TestVF_C09")
	vfCheck(t, c, vfGenC09, func(cs vfC09Case) string {
		msg := vfC09Run(cs)
		labels := vfPairLabels(cs.Cfg)
		if cs.Abs {
			labels = append(labels, "absolute_name")
		}
		if cs.Delete {
			labels = append(labels, "delete_afterwards")
		}
		if cs.Escapes {
			labels = append(labels, "would_escape_under_plain_join")
		}
		labels = append(labels, fmt.Sprintf("dest_spelling_%d", cs.Spell))
		if cs.Empty {
			labels = append(labels, "empty_destination")
		}
		c.eval(cs, cs.Escapes, labels...)
		return msg
	})
}
