//go:build verif

// C20 — the progress line always fits the terminal and never misreports.

package trzsz

import (
	"bytes"
	"fmt"
	"regexp"
	"strconv"
	"strings"
	"testing"
	"time"

	"github.com/mattn/go-runewidth"
	"pgregory.net/rapid"
)

type vfC20Ev struct {
	Op  string `json:"op"` // name size step done presize cols pause unpause
	S   string `json:"s,omitempty"`
	V   int64  `json:"v,omitempty"`
	DtU int64  `json:"dt_us"` // clock advance before the event, microseconds
}

type vfC20Case struct {
	Cols     int32     `json:"cols"`
	Pane     int32     `json:"pane"`
	Prefix   string    `json:"prefix,omitempty"`
	Color    string    `json:"color,omitempty"`
	Num      int64     `json:"num"`
	Hostile  bool      `json:"hostile"` // step/size values as a malicious peer could supply them
	Evs      []vfC20Ev `json:"evs"`
	MinWidth int       `json:"-"`
}

type vfCapture struct {
	writes [][]byte
}

func (w *vfCapture) Write(p []byte) (int, error) {
	w.writes = append(w.writes, append([]byte(nil), p...))
	return len(p), nil
}

var vfCSI = regexp.MustCompile(`\x1b\[[0-9;?]*[A-Za-z]`)
var vfPct = regexp.MustCompile(`(-?\d+|[+-]?Inf|NaN)%`)

func vfDecodeTmux(prefix string, data []byte) ([]byte, bool) {
	if !bytes.HasPrefix(data, []byte(prefix)) || !bytes.HasSuffix(data, []byte("\r\n")) {
		return nil, false
	}
	body := data[len(prefix) : len(data)-2]
	var out []byte
	for i := 0; i < len(body); i++ {
		if body[i] == '\\' {
			if i+3 >= len(body) {
				return nil, false
			}
			v, err := strconv.ParseUint(string(body[i+1:i+4]), 8, 8)
			if err != nil {
				return nil, false
			}
			out = append(out, byte(v))
			i += 3
		} else {
			out = append(out, body[i])
		}
	}
	return out, true
}

func vfC20Run(cs vfC20Case) (msg string, nontrivial bool) {
	old := timeNowFunc
	defer func() { timeNowFunc = old }()
	now := time.Unix(1700000000, 0)
	timeNowFunc = func() time.Time { return now }
	w := &vfCapture{}
	p := newTextProgressBar(w, cs.Cols, cs.Pane, cs.Prefix, cs.Color)
	eff := cs.Cols
	if cs.Pane > 1 {
		eff = cs.Pane - 1
	}
	lastPct := int64(-1)
	monotoneOK := true // cleared when the total size of the current file changes (not a cooperative sequence)
	var curTotal int64 = -1
	var preSize int64
	checked := 0
	check := func(evIdx int) string {
		for _, raw := range w.writes {
			data := raw
			if cs.Prefix != "" {
				d, ok := vfDecodeTmux(cs.Prefix, raw)
				if !ok {
					return fmt.Sprintf("event %d: output %q is not tmux-control-mode encoded with prefix %q", evIdx, raw, cs.Prefix)
				}
				data = d
			}
			txt := vfCSI.ReplaceAll(data, nil)
			txt = bytes.ReplaceAll(txt, []byte("\r"), nil)
			if len(txt) == 0 {
				continue
			}
			checked++
			wd := runewidth.StringWidth(string(txt))
			if eff >= 5 && wd > int(eff) {
				return fmt.Sprintf("event %d: progress line is %d columns wide, terminal has %d: %q", evIdx, wd, eff, txt)
			}
			m := vfPct.FindAllSubmatch(txt, -1)
			if len(m) != 1 {
				if eff >= 5 {
					return fmt.Sprintf("event %d: progress line has %d percentage fields: %q", evIdx, len(m), txt)
				}
				continue
			}
			pct, err := strconv.ParseInt(string(m[0][1]), 10, 64)
			if err != nil {
				return fmt.Sprintf("event %d: percentage %q is not a number: %q", evIdx, m[0][1], txt)
			}
			if pct < 0 || pct > 100 {
				return fmt.Sprintf("event %d: percentage %d outside 0..100: %q", evIdx, pct, txt)
			}
			if monotoneOK && pct < lastPct {
				return fmt.Sprintf("event %d: percentage decreased within a file: %d -> %d: %q", evIdx, lastPct, pct, txt)
			}
			lastPct = pct
		}
		w.writes = w.writes[:0]
		return ""
	}
	p.onNum(cs.Num)
	if m := check(-1); m != "" {
		return m, false
	}
	steps := 0
	for i, ev := range cs.Evs {
		now = now.Add(time.Duration(ev.DtU) * time.Microsecond)
		switch ev.Op {
		case "name":
			p.onName(ev.S)
			lastPct = -1
			monotoneOK = true
			curTotal = -1
			preSize = 0
		case "size":
			p.onSize(ev.V)
			t := preSize + ev.V
			if curTotal >= 0 && t != curTotal {
				monotoneOK = false
			}
			curTotal = t
		case "step":
			p.onStep(ev.V)
			steps++
		case "done":
			p.onDone()
		case "presize":
			p.setPreSize(ev.V)
			preSize = ev.V
		case "cols":
			p.setTerminalColumns(int32(ev.V))
			eff = int32(ev.V)
		case "pause":
			p.setPause(true)
		case "unpause":
			p.setPause(false)
		}
		if m := check(i); m != "" {
			return m, checked > 0
		}
	}
	p.showCursor()
	if m := check(len(cs.Evs)); m != "" {
		return m, checked > 0
	}
	return "", checked >= 2 && steps >= 2
}

var vfNameAlphabets = [][]rune{
	[]rune("abcXYZ019._- "),
	[]rune("文件名測試한국어日本語テスト"),
	[]rune("😀🚀👍🏽🇯🇵❤️‍🔥"),
	[]rune("éäô‍​"),
	[]rune("\x01\x07\x08\x1b\x7f\t"),
}

func vfGenName(rt *rapid.T, label string) string {
	n := rapid.IntRange(0, 80).Draw(rt, label+"_len")
	if rapid.IntRange(0, 15).Draw(rt, label+"_long") == 0 {
		n = rapid.IntRange(80, 255).Draw(rt, label+"_len2")
	}
	mix := rapid.IntRange(0, len(vfNameAlphabets)).Draw(rt, label+"_alpha")
	var b strings.Builder
	for i := 0; i < n; i++ {
		a := mix
		if mix == len(vfNameAlphabets) {
			a = rapid.IntRange(0, len(vfNameAlphabets)-1).Draw(rt, label+"_a")
		}
		al := vfNameAlphabets[a]
		b.WriteRune(al[rapid.IntRange(0, len(al)-1).Draw(rt, label+"_r")])
	}
	name := b.String()
	// Out of domain (DESIGN.md C20): a leading space directly followed by a non-ASCII rune. go-runewidth measures by grapheme
	// cluster, a modifier or combining mark clusters onto the space, and the renderer's TrimSpace then changes the measure of
	// the rest of the name; the display width of such a sequence is not well defined.
	if t := strings.TrimLeft(name, " \t\n\v\f\r"); len(t) < len(name) && len(t) > 0 && t[0] >= 0x80 {
		name = t // leading white space in front of a non-ASCII rune: dropped (see above)
	}
	return name
}

var vfBigSizes = []int64{0, 1, 2, 99, 100, 101, 1023, 1024, 1025, 1 << 20, 10 << 20, 1<<31 - 1, 1 << 31, 1 << 32, 1 << 40, 1 << 53, 1 << 62}

func vfGenC20(rt *rapid.T) vfC20Case {
	var cs vfC20Case
	if rapid.IntRange(0, 3).Draw(rt, "smallcols") == 0 {
		cs.Cols = int32(rapid.IntRange(1, 30).Draw(rt, "cols"))
	} else {
		cs.Cols = int32(rapid.IntRange(5, 500).Draw(rt, "cols2"))
	}
	if rapid.IntRange(0, 2).Draw(rt, "panemode") == 0 {
		cs.Pane = int32(rapid.IntRange(2, 500).Draw(rt, "pane"))
	}
	if rapid.IntRange(0, 7).Draw(rt, "prefixmode") == 0 {
		cs.Prefix = "%output %1 "
	}
	if rapid.IntRange(0, 7).Draw(rt, "colormode") == 0 {
		cs.Color = "00ffff ff00ff"
	}
	cs.Num = rapid.SampledFrom([]int64{1, 1, 2, 3, 10, 999, 1000000}).Draw(rt, "num")
	cs.Hostile = rapid.IntRange(0, 2).Draw(rt, "hostile") == 0
	dts := []int64{0, 1, 1000, 150000, 200000, 250000, 1000000, 3600 * 1000000, 400 * 24 * 3600 * 1000000}
	nfiles := rapid.IntRange(1, 3).Draw(rt, "nfiles")
	maxSteps := 12
	if rapid.IntRange(0, 4).Draw(rt, "longhistory") == 0 {
		// many files with many redraws each (every redraw takes a speed sample; the samples live in a ring that is reused per file)
		nfiles = rapid.IntRange(2, 14).Draw(rt, "nfiles_long")
		maxSteps = 40
		dts = []int64{200000, 250000, 250000, 300000, 1000000, 150000}
	}
	for f := 0; f < nfiles; f++ {
		cs.Evs = append(cs.Evs, vfC20Ev{Op: "name", S: vfGenName(rt, "name"), DtU: rapid.SampledFrom(dts).Draw(rt, "dt")})
		size := rapid.SampledFrom(vfBigSizes).Draw(rt, "size")
		if rapid.Bool().Draw(rt, "sizefree") {
			size = rapid.Int64Range(0, 1<<62).Draw(rt, "size2")
		}
		if cs.Hostile && rapid.IntRange(0, 4).Draw(rt, "negsize") == 0 {
			size = -rapid.Int64Range(1, 1<<62).Draw(rt, "negsz")
		}
		pre := int64(0)
		if rapid.IntRange(0, 3).Draw(rt, "resume") == 0 && size > 0 {
			// the resume path: onSize(total), hash steps, setPreSize(match), onSize(total-match)
			cs.Evs = append(cs.Evs, vfC20Ev{Op: "size", V: size})
			pre = rapid.Int64Range(0, size).Draw(rt, "pre")
			k := rapid.IntRange(0, 3).Draw(rt, "hashsteps")
			for i := 0; i < k; i++ {
				cs.Evs = append(cs.Evs, vfC20Ev{Op: "step", V: pre * int64(i+1) / int64(k), DtU: rapid.SampledFrom(dts).Draw(rt, "dt")})
			}
			cs.Evs = append(cs.Evs, vfC20Ev{Op: "presize", V: pre})
		}
		cs.Evs = append(cs.Evs, vfC20Ev{Op: "size", V: size - pre})
		nsteps := rapid.IntRange(0, maxSteps).Draw(rt, "nsteps")
		rem := size - pre
		cur := int64(0)
		for i := 0; i < nsteps; i++ {
			var v int64
			switch rapid.IntRange(0, 5).Draw(rt, "stepkind") {
			case 0: // repeat
				v = cur
			case 1: // regression
				if cur > 0 {
					v = rapid.Int64Range(0, cur).Draw(rt, "reg")
				}
			case 2: // jump to the end
				v = rem
			default:
				if rem > cur {
					v = rapid.Int64Range(cur, rem).Draw(rt, "adv")
				} else {
					v = cur
				}
			}
			if cs.Hostile && rapid.IntRange(0, 3).Draw(rt, "beyond") == 0 {
				v = rapid.SampledFrom([]int64{rem + 1, rem * 2, 1 << 62, 1<<63 - 1, -1, -(1 << 40)}).Draw(rt, "hostilestep")
			}
			if v > cur {
				cur = v
			}
			cs.Evs = append(cs.Evs, vfC20Ev{Op: "step", V: v, DtU: rapid.SampledFrom(dts).Draw(rt, "dt")})
			if rapid.IntRange(0, 9).Draw(rt, "resize") == 0 {
				cs.Evs = append(cs.Evs, vfC20Ev{Op: "cols", V: int64(rapid.IntRange(1, 500).Draw(rt, "newcols"))})
			}
			if rapid.IntRange(0, 14).Draw(rt, "pausing") == 0 {
				cs.Evs = append(cs.Evs, vfC20Ev{Op: "pause"}, vfC20Ev{Op: "step", V: vfPauseStep(v, rem, cs.Hostile), DtU: 300000})
				if rapid.Bool().Draw(rt, "resize_paused") {
					// the window is resized while the stop question is on the screen; the lines after the answer must fit the new width
					cs.Evs = append(cs.Evs, vfC20Ev{Op: "cols", V: int64(rapid.IntRange(1, 500).Draw(rt, "pausedcols"))})
				}
				cs.Evs = append(cs.Evs, vfC20Ev{Op: "unpause"})
			}
		}
		if rapid.Bool().Draw(rt, "done") {
			cs.Evs = append(cs.Evs, vfC20Ev{Op: "done", DtU: rapid.SampledFrom(dts).Draw(rt, "dt")})
		}
	}
	return cs
}

func TestVF_C20(t *testing.T) {
	c := vfNewCollector("C20", "TestVF_C20")
	known := vfKnown("F5")
	vfCheck(t, c, vfGenC20, func(cs vfC20Case) string {
		if cs.Hostile && known {
			c.exclude(1)
			return ""
		}
		msg, nt := vfC20Run(cs)
		l := "cooperative_values"
		if cs.Hostile {
			l = "hostile_values"
		}
		l2 := "cr_redraw"
		if cs.Pane > 1 {
			l2 = "pane_relative_redraw"
		}
		l3 := "cols>=5"
		if cs.Cols < 5 {
			l3 = "cols<5"
		}
		c.eval(cs, nt, l, l2, l3)
		return msg
	})
}

func vfKnown(id string) bool {
	for _, k := range strings.Split(vfEnv("VERIF_KNOWN_IDS", ""), ",") {
		if k == id {
			return true
		}
	}
	return false
}

func vfPauseStep(v, rem int64, hostile bool) int64 {
	if hostile || v+1 <= rem {
		return v + 1
	}
	return v
}
