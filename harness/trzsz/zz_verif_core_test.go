//go:build verif

// Verification harness core: statistics collector, environment, replay plumbing.
// Injected into a scratch copy of package trzsz by /verif/bin/check; never committed to /repo.

package trzsz

import (
	"crypto/sha1"
	"encoding/hex"
	"encoding/json"
	"fmt"
	"io"
	"os"
	"path/filepath"
	"runtime"
	"runtime/debug"
	"sort"
	"strconv"
	"strings"
	"sync"
	"testing"
	"time"

	"pgregory.net/rapid"
)

// ---------------------------------------------------------------------------------
// environment

func vfEnv(name, def string) string {
	if v := os.Getenv(name); v != "" {
		return v
	}
	return def
}

func vfEnvInt(name string, def int) int {
	if v := os.Getenv(name); v != "" {
		if n, err := strconv.Atoi(v); err == nil {
			return n
		}
	}
	return def
}

func vfTier() string { return vfEnv("VERIF_TIER", "quick") }

func vfThorough() bool { return vfTier() == "thorough" }

// vfShard returns (index, count) of this process among the shard processes of one check run.
func vfShard() (int, int) {
	return vfEnvInt("VERIF_SHARD", 0), vfEnvInt("VERIF_SHARDS", 1)
}

// ---------------------------------------------------------------------------------
// collector

type vfViolation struct {
	Kind string          `json:"kind"`
	Msg  string          `json:"msg"`
	Case json.RawMessage `json:"case"`
}

type vfKnownHit struct {
	ID   string          `json:"id"`
	Msg  string          `json:"msg"`
	Case json.RawMessage `json:"case,omitempty"`
	N    int64           `json:"n"`
}

type vfCollector struct {
	mu           sync.Mutex
	Prop         string                 `json:"property_id"`
	Test         string                 `json:"test"`
	Evaluations  int64                  `json:"evaluations"`
	Labels       map[string]int64       `json:"labels"`
	Hashes       []string               `json:"hashes"`
	HashOverflow int64                  `json:"hash_overflow"`
	Samples      []json.RawMessage      `json:"samples"`
	Excluded     int64                  `json:"excluded"`
	Inconclusive int64                  `json:"inconclusive"`
	Violations   []vfViolation          `json:"violations"`
	Known        map[string]*vfKnownHit `json:"known"`
	Exhaustive   bool                   `json:"exhaustive"`
	Notes        []string               `json:"notes"`
	Extra        map[string]int64       `json:"extra"`
	hashSet      map[string]struct{}
	sampleEvery  int64
	lastFail     *vfViolation
}

const vfMaxHashes = 300000

var vfCollectors = map[string]*vfCollector{}
var vfCollectorsMu sync.Mutex

func vfNewCollector(prop, test string) *vfCollector {
	vfCollectorsMu.Lock()
	defer vfCollectorsMu.Unlock()
	key := prop + "/" + test
	if c, ok := vfCollectors[key]; ok {
		return c
	}
	c := &vfCollector{Prop: prop, Test: test, Labels: map[string]int64{}, Known: map[string]*vfKnownHit{},
		Extra: map[string]int64{}, hashSet: map[string]struct{}{}, sampleEvery: 1}
	vfCollectors[key] = c
	return c
}

func vfCanon(v any) []byte {
	b, err := json.Marshal(v)
	if err != nil {
		return []byte(fmt.Sprintf("%q", fmt.Sprint(v)))
	}
	return b
}

func vfHash(b []byte) string {
	s := sha1.Sum(b)
	return hex.EncodeToString(s[:8])
}

// eval records one evaluated case. nontrivial says whether it satisfies the property's stated rule.
func (c *vfCollector) eval(cs any, nontrivial bool, labels ...string) {
	c.mu.Lock()
	defer c.mu.Unlock()
	c.Evaluations++
	for _, l := range labels {
		if l != "" {
			c.Labels[l]++
		}
	}
	if !nontrivial {
		return
	}
	c.Labels["nontrivial"]++
	b := vfCanon(cs)
	h := vfHash(b)
	if _, ok := c.hashSet[h]; ok {
		return
	}
	if len(c.hashSet) >= vfMaxHashes {
		c.HashOverflow++
		return
	}
	c.hashSet[h] = struct{}{}
	// reservoir-ish sampling: keep up to 8 samples spread over the run
	n := int64(len(c.hashSet))
	if len(c.Samples) < 8 && n%c.sampleEvery == 0 {
		if len(b) > 4096 {
			b = vfCanon(map[string]any{"truncated_case_json_prefix": string(b[:4000])})
		}
		c.Samples = append(c.Samples, json.RawMessage(b))
		c.sampleEvery *= 4
	}
}

// evalCount records an evaluation of an enumerated sub-space cheaply (no per-case hashing):
// distinct by construction, the enumerator guarantees no repeats.
func (c *vfCollector) evalEnum(n int64, nontrivial int64, label string) {
	c.mu.Lock()
	defer c.mu.Unlock()
	c.Evaluations += n
	c.Labels[label] += n
	c.Labels["nontrivial"] += nontrivial
	c.Extra["enumerated_nontrivial"] += nontrivial
}

func (c *vfCollector) label(l string) {
	c.mu.Lock()
	c.Labels[l]++
	c.mu.Unlock()
}

func (c *vfCollector) addSample(cs any) {
	c.mu.Lock()
	if len(c.Samples) < 12 {
		c.Samples = append(c.Samples, json.RawMessage(vfCanon(cs)))
	}
	c.mu.Unlock()
}

func (c *vfCollector) exclude(n int64) {
	c.mu.Lock()
	c.Excluded += n
	c.mu.Unlock()
}

func (c *vfCollector) inconclusive(why string) {
	c.mu.Lock()
	c.Inconclusive++
	c.Labels["inconclusive:"+why]++
	c.mu.Unlock()
}

func (c *vfCollector) note(s string) {
	c.mu.Lock()
	for _, n := range c.Notes {
		if n == s {
			c.mu.Unlock()
			return
		}
	}
	c.Notes = append(c.Notes, s)
	c.mu.Unlock()
}

// fail remembers a failing case. rapid re-runs the property while shrinking, so the last remembered
// failure of a test function is the shrunk one; finish() turns it into a violation record.
func (c *vfCollector) fail(kind string, cs any, msg string) {
	c.mu.Lock()
	c.lastFail = &vfViolation{Kind: kind, Msg: msg, Case: json.RawMessage(vfCanon(cs))}
	c.mu.Unlock()
}

// violation records a final violation directly (enumerations, E3 content verdicts).
func (c *vfCollector) violation(kind string, cs any, msg string) {
	c.mu.Lock()
	if len(c.Violations) < 20 {
		c.Violations = append(c.Violations, vfViolation{Kind: kind, Msg: msg, Case: json.RawMessage(vfCanon(cs))})
	}
	c.mu.Unlock()
}

func (c *vfCollector) known(id string, cs any, msg string) {
	c.mu.Lock()
	k := c.Known[id]
	if k == nil {
		k = &vfKnownHit{ID: id, Msg: msg, Case: json.RawMessage(vfCanon(cs))}
		c.Known[id] = k
	}
	k.N++
	c.mu.Unlock()
}

// commitFail is called after a rapid.Check (or a loop) ended: promote the last failure.
func (c *vfCollector) commitFail() {
	c.mu.Lock()
	if c.lastFail != nil {
		if len(c.Violations) < 20 {
			c.Violations = append(c.Violations, *c.lastFail)
		}
		c.lastFail = nil
	}
	c.mu.Unlock()
}

func vfFlushAll() {
	path := os.Getenv("VERIF_STATS")
	if path == "" {
		return
	}
	vfCollectorsMu.Lock()
	defer vfCollectorsMu.Unlock()
	var all []*vfCollector
	keys := make([]string, 0, len(vfCollectors))
	for k := range vfCollectors {
		keys = append(keys, k)
	}
	sort.Strings(keys)
	for _, k := range keys {
		c := vfCollectors[k]
		c.mu.Lock()
		c.commitFailLocked()
		c.Hashes = c.Hashes[:0]
		for h := range c.hashSet {
			c.Hashes = append(c.Hashes, h)
		}
		sort.Strings(c.Hashes)
		c.mu.Unlock()
		all = append(all, c)
	}
	b, err := json.Marshal(all)
	if err != nil {
		fmt.Fprintf(os.Stderr, "verif: cannot marshal stats: %v\n", err)
		return
	}
	tmp := path + ".tmp"
	if err := os.WriteFile(tmp, b, 0644); err == nil {
		_ = os.Rename(tmp, path)
	}
}

func (c *vfCollector) commitFailLocked() {
	if c.lastFail != nil {
		if len(c.Violations) < 20 {
			c.Violations = append(c.Violations, *c.lastFail)
		}
		c.lastFail = nil
	}
}

// ---------------------------------------------------------------------------------
// TestMain

var vfChildRoles = map[string]func() int{}

func TestMain(m *testing.M) {
	os.Unsetenv("TMUX")
	os.Unsetenv("TMUX_PANE")
	if role := os.Getenv("VERIF_CHILD"); role != "" {
		if fn, ok := vfChildRoles[role]; ok {
			os.Exit(fn())
		}
		fmt.Fprintf(os.Stderr, "verif: unknown child role %q\n", role)
		os.Exit(97)
	}
	code := m.Run()
	vfFlushAll()
	os.Exit(code)
}

// ---------------------------------------------------------------------------------
// replay / regress plumbing

// vfReplayFiles lists the case files to run before (or instead of) the generated search.
// VERIF_REPLAY=<file> → only that file and no search; VERIF_REGRESS=<dir> → every *.json in dir whose
// "test" field matches (or is absent), then the search.
type vfCaseFile struct {
	Path string
	Test string          `json:"test"`
	Kind string          `json:"kind"`
	Case json.RawMessage `json:"case"`
}

func vfLoadCaseFile(path string) (*vfCaseFile, error) {
	b, err := os.ReadFile(path)
	if err != nil {
		return nil, err
	}
	var f vfCaseFile
	if err := json.Unmarshal(b, &f); err != nil {
		return nil, err
	}
	if len(f.Case) == 0 { // a bare case
		f.Case = b
	}
	f.Path = path
	return &f, nil
}

func vfReplayOnly() bool { return os.Getenv("VERIF_REPLAY") != "" }

func vfCaseFilesFor(test string) []*vfCaseFile {
	var out []*vfCaseFile
	if p := os.Getenv("VERIF_REPLAY"); p != "" {
		f, err := vfLoadCaseFile(p)
		if err != nil {
			fmt.Fprintf(os.Stderr, "verif: cannot load replay %s: %v\n", p, err)
			os.Exit(96)
		}
		if f.Test == "" || f.Test == test {
			out = append(out, f)
		}
		return out
	}
	if d := os.Getenv("VERIF_REGRESS"); d != "" {
		names, _ := filepath.Glob(filepath.Join(d, "*.json"))
		sort.Strings(names)
		for _, n := range names {
			f, err := vfLoadCaseFile(n)
			if err != nil {
				fmt.Fprintf(os.Stderr, "verif: cannot load regress %s: %v\n", n, err)
				continue
			}
			if f.Test == "" || f.Test == test {
				out = append(out, f)
			}
		}
	}
	return out
}

// vfGuard runs fn and converts a panic into an error message (so that the harness can record the
// case before rapid sees the failure).
func vfGuard(fn func() string) (msg string) {
	defer func() {
		if r := recover(); r != nil {
			if _, ok := r.(vfStopRapid); ok {
				panic(r)
			}
			st := string(debug.Stack())
			if len(st) > 3000 {
				st = st[:3000]
			}
			msg = fmt.Sprintf("panic: %v\n%s", r, st)
		}
	}()
	return fn()
}

type vfStopRapid struct{}

// vfGuardTimed runs one case under a watchdog. A case that does not come back within VERIF_CASE_LIMIT seconds (default 60;
// the cases it guards take micro- to milliseconds) is recorded as a violation with the unshrunk case and the process ends,
// because a stuck goroutine cannot be cancelled.
func vfGuardTimed(c *vfCollector, cs any, fn func() string) string {
	limit := time.Duration(vfEnvInt("VERIF_CASE_LIMIT", 60)) * time.Second
	done := make(chan string, 1)
	go func() { done <- vfGuard(fn) }()
	timer := time.NewTimer(limit)
	defer timer.Stop()
	select {
	case msg := <-done:
		return msg
	case <-timer.C:
		buf := make([]byte, 1<<16)
		n := runtime.Stack(buf, true)
		st := string(buf[:n])
		if len(st) > 6000 {
			st = st[:6000]
		}
		c.violation("hang", cs, fmt.Sprintf("case did not terminate within %v (busy loop or blocked read)\n%s", limit, st))
		vfFlushAll()
		fmt.Fprintf(os.Stderr, "verif: case did not terminate within %v\n", limit)
		os.Exit(1)
		return ""
	}
}

// vfCheck is the common shape of a generated check: regress/replay files first (bypassing rapid), then
// rapid.Check over gen → run.
func vfCheck[T any](t *testing.T, c *vfCollector, gen func(*rapid.T) T, run func(T) string) {
	defer vfFlushAll()
	for _, f := range vfCaseFilesFor(c.Test) {
		var cs T
		if err := json.Unmarshal(f.Case, &cs); err != nil {
			t.Errorf("bad case file %s: %v", f.Path, err)
			continue
		}
		if msg := vfGuard(func() string { return run(cs) }); msg != "" {
			c.violation("regress:"+filepath.Base(f.Path), cs, msg)
			t.Errorf("case file %s fails: %s", f.Path, msg)
		} else {
			c.label("casefile_pass")
		}
	}
	if vfReplayOnly() || t.Failed() {
		return // a failing saved case is the verdict; rapid refuses a *testing.T that has already failed
	}
	rapid.Check(t, func(rt *rapid.T) {
		cs := gen(rt)
		if msg := vfGuardTimed(c, cs, func() string { return run(cs) }); msg != "" {
			c.fail("generated", cs, msg)
			rt.Fatalf("%s", msg)
		}
	})
	c.commitFail()
}

func vfShort(b []byte, n int) string {
	if len(b) <= n {
		return fmt.Sprintf("%q", b)
	}
	return fmt.Sprintf("%q…(%d bytes)", b[:n], len(b))
}

func vfJoin(ss []string) string { return strings.Join(ss, ",") }

func runtimeStack(buf []byte) int { return runtime.Stack(buf, true) }

func jsonUnmarshal(b []byte, v any) error { return json.Unmarshal(b, v) }

// vfWriteReused writes data through one reused scratch buffer and overwrites the buffer after every Write call: a writer that keeps
// the caller's slice beyond the call (against the io.Writer contract) then sees different bytes, as it would behind a copy loop.
func vfWriteReused(w io.Writer, data []byte, scratch *[]byte) error {
	if cap(*scratch) < len(data) {
		*scratch = make([]byte, len(data)+len(data)/2+16)
	}
	buf := (*scratch)[:len(data)]
	copy(buf, data)
	for len(buf) > 0 {
		n, err := w.Write(buf)
		if err != nil {
			return err
		}
		if n < 0 || n > len(buf) {
			return fmt.Errorf("Write returned the impossible count %d for %d bytes", n, len(buf))
		}
		rest := len(buf) - n
		copy((*scratch)[:rest], buf[n:]) // the unwritten rest moves to the front, as a refilling reader would leave it
		buf = (*scratch)[:rest]
		for i := rest; i < cap(*scratch) && i < rest+n; i++ {
			(*scratch)[i] = 0xA5
		}
	}
	return nil
}
